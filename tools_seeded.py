#!/venv/bin/python
"""Confirm a seeded change and run the checks against it.

  tools_seeded.py <dir with patch.diff + demo.py> <prop> [--budget S] [--skip-confirm]

1. in a scratch worktree of /repo (under /tmp, removed afterwards): demo exits 0 on the clean tree, 1 with the patch;
   the baseline test suite still passes the 66 stable tests with the patch;
2. git -C /repo apply patch; run the quick check of <prop>; git -C /repo checkout -- . (always);
prints a JSON summary.
"""
import json, os, re, shutil, subprocess, sys, tempfile, time
import xml.etree.ElementTree as ET

HERE = os.path.dirname(os.path.abspath(__file__))


def sh(cmd, **kw):
    return subprocess.run(cmd, capture_output=True, text=True, **kw)


def main():
    d = os.path.abspath(sys.argv[1])
    prop = sys.argv[2]
    budget = sys.argv[sys.argv.index('--budget') + 1] if '--budget' in sys.argv else None
    patch = os.path.join(d, 'patch.diff')
    demo = os.path.join(d, 'demo.py')
    out = {'dir': d, 'prop': prop}
    if '--skip-confirm' not in sys.argv:
        wt = tempfile.mkdtemp(prefix='seedwt_', dir='/tmp')
        os.rmdir(wt)
        try:
            assert sh(['git', '-C', '/repo', 'worktree', 'add', '-q', '--detach', wt, 'HEAD']).returncode == 0
            env = dict(os.environ, PYTHONPATH=os.path.join(wt, 'src'), OMP_NUM_THREADS='1')
            r0 = sh([sys.executable, demo], env=env, cwd=tempfile.gettempdir(), timeout=900)
            out['demo_clean_exit'] = r0.returncode
            a = sh(['git', '-C', wt, 'apply', patch])
            out['patch_applies'] = a.returncode == 0
            if a.returncode != 0:
                out['apply_err'] = a.stderr[-500:]
            r1 = sh([sys.executable, demo], env=env, cwd=tempfile.gettempdir(), timeout=900)
            out['demo_patched_exit'] = r1.returncode
            out['demo_patched_tail'] = (r1.stdout + r1.stderr)[-400:]
            junit = os.path.join(wt, 'junit.xml')
            sh([sys.executable, '-m', 'pytest', '-q', '-p', 'no:cacheprovider', '--timeout=900', '--continue-on-collection-errors', f'--junitxml={junit}', 'tests'], env=env, cwd=wt, timeout=1800)
            passed = set()
            for tc in ET.parse(junit).getroot().iter('testcase'):
                if not any(ch.tag in ('failure', 'error', 'skipped') for ch in tc):
                    passed.add(f"{tc.get('classname')}::{tc.get('name')}")
            stable = set(json.load(open('/root/.vp/BASELINE.json'))['stable_pass'])
            out['baseline_stable_passing'] = len(stable & passed)
            out['baseline_missing'] = sorted(stable - passed)
        finally:
            sh(['git', '-C', '/repo', 'worktree', 'remove', '--force', wt])
            shutil.rmtree(wt, ignore_errors=True)
    # run the check against /repo with the patch applied
    st = sh(['git', '-C', '/repo', 'status', '--porcelain']).stdout.strip()
    if st:
        out['error'] = '/repo not clean: ' + st
        print(json.dumps(out, indent=1))
        return 2
    scratch = tempfile.mkdtemp(prefix='seedrun_', dir='/tmp')
    try:
        a = sh(['git', '-C', '/repo', 'apply', patch])
        if a.returncode != 0:
            out['error'] = 'apply to /repo failed: ' + a.stderr[-300:]
            print(json.dumps(out, indent=1))
            return 2
        env = dict(os.environ, VERIF_NO_EVIDENCE='1', VERIF_REPLAY_DIR=os.path.join(scratch, 'replays'), VERIF_DET_SEEDS='0', VERIF_SHRINK_WALL='40')
        if budget:
            env['VERIF_BUDGET_S'] = budget
        t0 = time.time()
        r = sh([sys.executable, os.path.join(HERE, 'run_check.py'), prop, os.environ.get('SEED_TIER', 'quick')], env=env, timeout=7200)
        out['check_exit'] = r.returncode
        out['check_wall_s'] = round(time.time() - t0, 1)
        out['classes'] = sorted(set(re.findall(r'^  (C\d\d/\w+):', r.stdout, flags=re.M)))
        out['violation_lines'] = [l for l in r.stdout.splitlines() if l.startswith('  C')][:6]
        out['summary'] = r.stdout.splitlines()[0] if r.stdout else r.stderr[-300:]
        # keep the first minimised replay next to the seeded change
        rp = os.path.join(scratch, 'replays', prop)
        if os.path.isdir(rp) and os.listdir(rp):
            shutil.copy(os.path.join(rp, sorted(os.listdir(rp))[0]), os.path.join(d, 'replay_found.json'))
        out['caught'] = r.returncode == 1
    finally:
        sh(['git', '-C', '/repo', 'checkout', '--', '.'])
        shutil.rmtree(scratch, ignore_errors=True)
    out['repo_clean_after'] = sh(['git', '-C', '/repo', 'status', '--porcelain']).stdout.strip() == ''
    print(json.dumps(out, indent=1))
    return 0


if __name__ == '__main__':
    sys.exit(main())
