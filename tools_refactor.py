#!/venv/bin/python
"""False-alarm test: apply a behaviour-preserving change to /repo, run the quick check, revert. The check must stay silent.
  tools_refactor.py <dir with patch.diff> <prop>"""
import json, os, re, shutil, subprocess, sys, tempfile, time
HERE = os.path.dirname(os.path.abspath(__file__))
def sh(cmd, **kw): return subprocess.run(cmd, capture_output=True, text=True, **kw)
d = os.path.abspath(sys.argv[1]); prop = sys.argv[2]
out = {'dir': d, 'prop': prop}
if sh(['git', '-C', '/repo', 'status', '--porcelain']).stdout.strip():
    print(json.dumps({'error': '/repo not clean'})); sys.exit(2)
scratch = tempfile.mkdtemp(prefix='refrun_', dir='/tmp')
try:
    a = sh(['git', '-C', '/repo', 'apply', os.path.join(d, 'patch.diff')])
    if a.returncode:
        out['error'] = a.stderr[-300:]
    else:
        env = dict(os.environ, VERIF_NO_EVIDENCE='1', VERIF_REPLAY_DIR=os.path.join(scratch, 'replays'), VERIF_DET_SEEDS='4', VERIF_SHRINK_WALL='40')
        t0 = time.time()
        r = sh([sys.executable, os.path.join(HERE, 'run_check.py'), prop, 'quick'], env=env, timeout=7200)
        out.update(check_exit=r.returncode, wall=round(time.time() - t0, 1), classes=sorted(set(re.findall(r'^  (C\d\d/\w+):', r.stdout, flags=re.M))),
                   lines=[l[:400] for l in r.stdout.splitlines() if l.startswith('  C') or l.startswith('HARNESS')][:6], summary=r.stdout.splitlines()[0][:200] if r.stdout else r.stderr[-300:])
        rp = os.path.join(scratch, 'replays', prop)
        if os.path.isdir(rp) and os.listdir(rp):
            shutil.copy(os.path.join(rp, sorted(os.listdir(rp))[0]), os.path.join(d, 'replay_alarm.json'))
finally:
    sh(['git', '-C', '/repo', 'checkout', '--', '.'])
    sh(['git', '-C', '/repo', 'clean', '-fdq', 'src'])
    shutil.rmtree(scratch, ignore_errors=True)
out['repo_clean_after'] = sh(['git', '-C', '/repo', 'status', '--porcelain']).stdout.strip() == ''
print(json.dumps(out, indent=1))
