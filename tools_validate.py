#!/usr/bin/env python3
"""Validate MANIFEST.json and evidence files against the schemas (run with python3-vt)."""
import glob, json, sys
import jsonschema
ok = True
m = json.load(open('/verif/MANIFEST.json'))
jsonschema.validate(m, json.load(open('/root/.vp/MANIFEST.schema.json')))
print('MANIFEST ok')
props = [json.loads(l)['id'] for l in open('/verif/properties.jsonl')]
claimed = [c['property_id'] for c in m['checks']]
na = [n['property_id'] for n in m.get('not_applicable', [])]
missing = [p for p in props if p not in claimed and p not in na]
if missing:
    print('properties neither claimed nor not_applicable:', missing)
es = json.load(open('/root/.vp/EVIDENCE.schema.json'))
for p in glob.glob('/verif/evidence/*.json'):
    try:
        jsonschema.validate(json.load(open(p)), es)
        print(p, 'ok')
    except Exception as e:
        ok = False
        print(p, 'INVALID', str(e)[:300])
sys.exit(0 if ok else 1)
