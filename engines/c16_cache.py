"""C16 - trajectory caching is faithful and survives an interrupted cache write.

Simulated system: the real loaders (from_lammps / from_vasprun / from_gromacs),
to_cache / from_cache, pickle, the real parsers, on real files inside the run's
private directory; every open() of a cache file goes through SimFS (crash at byte
k, ENOSPC/EIO at byte k, read errors, short reads, vanishing files) and the
scheduler damages cache files between operations (truncate, torn tails).

Oracle: REF(fmt, argset) = the same loader call on a pristine copy of the source
files with no cache present.  See DESIGN.md §4.
"""

from __future__ import annotations

import copy
import glob
import json
import os
import pickle
import shutil
import sys
import warnings

import numpy as np

from sim import worlds
from sim.core import SimRandom, Stats, Trace, Violation, HarnessError, array_fp
from sim import simfs
from sim.simfs import REAL_OPEN, SimCrash, SimFS, is_cache

PROP = 'C16'

WRITE_FAULTS = ('crash_write', 'enospc', 'eio_write')
READ_FAULTS = ('eio_open', 'eio_read', 'short_read', 'vanish')
DAMAGE_KINDS = ('truncate', 'empty', 'zero_tail', 'ff_tail', 'rand_tail', 'text', 'bitflip', 'prepend', 'drop_head')


def rich_metadata(seed: int) -> dict:
    import datetime
    import decimal
    import fractions
    import pathlib

    menu = [
        ('date', datetime.date(2020, 1, 2 + seed % 20)), ('path', pathlib.PurePosixPath('runs') / f'md{seed % 7}'), ('decimal', decimal.Decimal('1.5') + seed % 3),
        ('fraction', fractions.Fraction(1 + seed % 5, 3)), ('complex', complex(1, seed % 4)), ('bytes', bytes([seed % 250, 1, 2])), ('tuple', (1, 'a', (2.5, None))),
        ('nested', {'a': [1, 2, {'b': seed % 9}]}), ('np32', np.float32(0.25 + seed % 2)), ('nparr', np.arange(3 + seed % 3)), ('frozenset', frozenset({1, seed % 6})),
        ('timedelta', datetime.timedelta(seconds=seed % 100)),
    ]
    k = 1 + seed % 4
    start = seed % len(menu)
    return {f'note_{name}': val for name, val in (menu[(start + i) % len(menu)] for i in range(k))}


def sized_copies(src, target: int, measure):
    """Up to three copies of ``src`` whose cache files are as close as possible to ``target`` bytes on disk (padding a
    metadata string by m-1, m, m+1 characters).  ``measure(obj)`` returns the size of the file the library writes for
    obj - whatever protocol or format it uses.  Neighbours are included because a defect may make the exact size
    unreachable on disk."""
    obj = copy.deepcopy(src)
    obj.metadata = dict(obj.metadata, pad='x' * 300)  # beyond the 1-byte -> 4-byte string length switch at 256
    best = None
    for _ in range(6):
        d = target - measure(obj)
        m = len(obj.metadata['pad'])
        if best is None or abs(d) < best[0]:
            best = (abs(d), m)
        if d == 0 or m + d < 300:
            break
        obj.metadata['pad'] = 'x' * (m + d)
    if best is None or best[0] > 64:
        return []
    out = []
    for m in (best[1] - 1, best[1] + 1, best[1]):
        o = copy.deepcopy(src)
        o.metadata = dict(o.metadata, pad='x' * max(300, m))
        out.append(o)
    return out


def setup():
    warnings.filterwarnings('ignore')
    import MDAnalysis  # noqa: F401
    import MDAnalysis.coordinates.XTC  # noqa: F401
    import MDAnalysis.coordinates.XYZ  # noqa: F401
    import MDAnalysis.coordinates.GRO  # noqa: F401
    import pymatgen.io.lammps.data  # noqa: F401
    import pymatgen.io.vasp  # noqa: F401

    import gemdat  # noqa: F401
    import gemdat.trajectory  # noqa: F401

    sys.unraisablehook = lambda *a, **k: None


# ---------------------------------------------------------------------------
# records (non-mutating views of a trajectory)


def positions_of(T) -> np.ndarray:
    c = np.asarray(T.coords)
    if T.coords_are_displacement:
        c = np.asarray(T.base_positions) + np.cumsum(c, axis=0)
    return np.mod(c, 1.0)


def _site_props(T):
    sp = getattr(T, 'site_properties', None)
    if not sp:
        return None
    if isinstance(sp, dict):
        sp = [sp] * int(len(T.coords))  # one dict for all frames == the same dict per frame
    out = []
    for d in sp:
        if d is None:
            out.append(None)
            continue
        out.append({k: [str(x) for x in v] for k, v in sorted(d.items())})
    return out


def traj_record(T, raw: bool = False) -> dict:
    rec = {
        'type': type(T).__name__,
        'species': [str(s) for s in T.species],
        'n': int(len(T.coords)),
        'pos': positions_of(T),
        'lattice': np.array(T.lattice, dtype=float),
        'constant_lattice': bool(T.constant_lattice),
        'time_step': T.time_step,
        'metadata': repr(sorted((str(k), repr(v)) for k, v in (T.metadata or {}).items())),
        'site_properties': _site_props(T),
        'frame_properties': repr(getattr(T, 'frame_properties', None)),
        'charge': repr((getattr(T, 'charge', None), getattr(T, 'spin_multiplicity', None))),
    }
    if raw:
        rec['mode'] = bool(T.coords_are_displacement)
        rec['coords'] = np.array(T.coords, copy=True)
        bp = T.base_positions
        rec['base'] = None if bp is None else np.array(bp, copy=True)
    return rec


def rec_diff(a: dict, b: dict, tol: float = 1e-12) -> str | None:
    for k in a:
        if k not in b:
            return f'missing {k}'
        x, y = a[k], b[k]
        if isinstance(x, np.ndarray) or isinstance(y, np.ndarray):
            if x is None or y is None:
                return f'{k}: None vs array'
            x = np.asarray(x)
            y = np.asarray(y)
            if x.shape != y.shape:
                return f'{k}: shape {x.shape} vs {y.shape}'
            if k == 'pos':
                d = np.abs(x - y)
                d = np.minimum(d, 1 - d)
                if d.size and d.max() > tol:
                    return f'{k}: max circular diff {d.max():.3g}'
            elif not np.array_equal(x, y):
                return f'{k}: arrays differ (max {np.abs(x - y).max():.3g})'
        elif x != y:
            return f'{k}: {str(x)[:80]!r} vs {str(y)[:80]!r}'
    return None


def rec_fp(rec: dict) -> dict:
    return {
        'species': ''.join(rec['species']),
        'n': rec['n'],
        'pos': array_fp(rec['pos'], 8),
        'lat': array_fp(rec['lattice'], 8),
        'cl': rec['constant_lattice'],
        'ts': rec['time_step'],
        'md': rec['metadata'],
    }


# ---------------------------------------------------------------------------
# scenario generation


def key_str(k) -> str:
    return f"{k['ds']}:{k['args']}:{k['cache']}"


def generate(run_seed: int, tier: str = 'quick', stream: str = 'seq') -> dict:
    rng = SimRandom(run_seed)
    fault_free = rng.chance(0.2)
    n_ds = rng.weighted({1: 5, 2: 3, 3: 1})
    # swarm: restrict formats for the run sometimes
    fmts_allowed = rng.pick([['lammps', 'vasp', 'gromacs'], ['lammps', 'vasp', 'gromacs'], ['vasp'], ['lammps'], ['gromacs'], ['vasp', 'lammps']])
    datasets = [worlds.gen_dataset_params(rng, fmt=rng.pick(fmts_allowed), small=rng.chance(0.3)) for _ in range(n_ds)]
    # sometimes two runs of the same code sit in ONE directory, told apart only by the middle of their file names
    if n_ds >= 2 and rng.chance(0.35):
        base = rng.pick(['md', 'run', 'sim.v2'])
        same = [i for i in range(n_ds) if datasets[i]['fmt'] == datasets[0]['fmt']]
        if len(same) >= 2:
            for n_, i in enumerate(same[:2]):
                datasets[i]['stem'] = f'{base}.part{n_ + 1}'
                datasets[i]['dir'] = same[0]
    # per-dataset subset of argsets in play (few, to provoke key collisions)
    argsets = []
    for i, d in enumerate(datasets):
        same = [j for j in range(i) if datasets[j]['fmt'] == d['fmt']]
        if same and rng.chance(0.6):  # same options for another run of the same code: same file names, another directory
            argsets.append(copy.deepcopy(argsets[rng.pick(same)]))
        else:
            argsets.append(worlds.gen_argsets(rng, d['fmt']))
    argsub = [list(range(len(a))) for a in argsets]
    wf = [] if fault_free else [k for k in WRITE_FAULTS if rng.chance(0.7)]
    rf = [] if fault_free else [k for k in READ_FAULTS if rng.chance(0.6)]
    dk = [] if fault_free else [k for k in DAMAGE_KINDS if rng.chance(0.7)]
    p_fault = 0.0 if fault_free else rng.pick([0.15, 0.3, 0.5])
    weights = {
        'LOAD': rng.uniform(3, 6),
        'DAMAGE': rng.uniform(0.5, 3) if dk else 0,
        'DAMAGE_LOAD': rng.uniform(0.5, 3) if dk else 0,
        'SAVE': rng.uniform(0.3, 1.5),
        'RELOAD': rng.uniform(0.3, 1.5),
        'DELETE': rng.uniform(0.1, 1.0),
        'RESAVE_FAULT': rng.uniform(0.2, 1.2) if wf else 0,
        'SAVE_SIZED': rng.uniform(0.1, 0.7),
    }
    n_ops = rng.randint(4, 25 if tier == 'quick' else 40)
    ops = []

    def gen_key():
        ds = rng.randrange(n_ds)
        return {'ds': ds, 'args': rng.pick(argsub[ds]), 'cache': rng.weighted({'default': 6, 'x0': 1, 'x1': 1})}

    def gen_fault(kinds):
        if not kinds or not rng.chance(p_fault):
            return None
        kind = rng.pick(kinds)
        f = {'kind': kind}
        if kind in WRITE_FAULTS:
            mode = rng.weighted({'frac': 6, 'head': 2, 'tail': 2, 'end': 1})
            if mode == 'frac':
                f['kf'] = round(rng.random(), 4)
            elif mode == 'head':
                f['k'] = rng.randint(0, 40)
            elif mode == 'tail':
                f['kt'] = rng.randint(0, 12)  # bytes before the end
            else:
                f['kt'] = 0
        elif kind in ('eio_read', 'short_read'):
            f['n'] = rng.randint(1, 4)
        return f

    def gen_damage(target):
        kind = rng.pick(dk)
        op = {'op': 'DAMAGE', 'target': target, 'kind': kind}
        if kind not in ('empty', 'text'):
            op['kf'] = round(rng.random(), 4) if rng.chance(0.8) else rng.pick([0.0, 0.9999])
        if kind in ('rand_tail', 'bitflip'):
            op['seed'] = rng.getrandbits(32)
        return op

    saves = 0
    last_save = {'slot': 0, 'src': 0}
    mp_loads = rng.chance(0.3)  # this run's script makes some of its loads from multiprocessing workers
    while len(ops) < n_ops:
        kind = rng.weighted(weights)
        if kind == 'LOAD':
            k = gen_key()
            f = gen_fault(wf + rf)
            ops.append({'op': 'LOAD', **k, 'fault': f})
            if mp_loads and rng.chance(0.3):
                ops[-1]['mp'] = True
            if f and f['kind'] == 'crash_write':
                ops.append({'op': 'RESTART'})
        elif kind == 'DAMAGE':
            tgt = gen_key() if (saves == 0 or rng.chance(0.8)) else {'save': rng.randrange(4)}
            ops.append(gen_damage(tgt))
        elif kind == 'DAMAGE_LOAD':
            # fault inside in-flight state: damage a cache, then load the same key with a write fault
            k = gen_key()
            ops.append(gen_damage(k))
            f = gen_fault(wf) if wf else None
            ops.append({'op': 'LOAD', **k, 'fault': f})
            if mp_loads and rng.chance(0.4):
                ops[-1]['mp'] = True
            if f and f['kind'] == 'crash_write':
                ops.append({'op': 'RESTART'})
                ops.append({'op': 'LOAD', **k, 'fault': None})
        elif kind == 'SAVE':
            f = gen_fault([x for x in wf])
            # often the same slot (and the same source object) again: save, change in place, save again
            slot = last_save['slot'] if (saves and rng.chance(0.5)) else rng.randrange(4)
            src = last_save['src'] if (saves and rng.chance(0.4)) else rng.randrange(8)
            last_save.update(slot=slot, src=src)
            ops.append({
                'op': 'SAVE', 'src': src, 'slot': slot,
                'derive': rng.pick([None, None, 'slice', 'filter', 'disp', 'flip_inplace', 'extend_inplace', 'slice', 'rich_metadata', 'perframe_props']), 'fault': f,
            })
            if ops[-1]['derive'] in ('rich_metadata', 'perframe_props'):
                ops[-1]['seed'] = rng.getrandbits(16)

            saves += 1
            if f and f['kind'] == 'crash_write':
                ops.append({'op': 'RESTART'})
        elif kind == 'SAVE_SIZED':
            # a cache file whose size sits on / next to a typical buffer or chunk size (4 KiB ... 2 MiB), saved and read back
            slot = rng.randrange(4)
            k = rng.weighted({12: 2, 13: 1, 14: 1, 15: 1, 16: 2, 17: 1, 18: 1, 19: 1, 20: 3, 21: 1})
            ops.append({'op': 'SAVE', 'src': rng.randrange(8), 'slot': slot, 'derive': 'sized', 'fault': None,
                        'size_target': (1 << k) + rng.weighted({-2: 1, -1: 2, 0: 2, 1: 2, 2: 1})})
            ops.append({'op': 'RELOAD', 'slot': slot, 'fault': None})
            last_save.update(slot=slot)
            saves += 1
        elif kind == 'RESAVE_FAULT':
            # overwrite an existing, complete save with a changed object and fail in the middle of the write:
            # afterwards the file must hold the old object, the new one, or be unreadable - never a mixture
            slot, src = rng.randrange(4), rng.randrange(8)
            last_save.update(slot=slot, src=src)
            ops.append({'op': 'SAVE', 'src': src, 'slot': slot, 'derive': None, 'fault': None})
            fk = rng.pick(wf)
            ops.append({'op': 'SAVE', 'src': src, 'slot': slot, 'derive': rng.pick(['flip_inplace', 'flip_inplace', 'extend_inplace', None]),
                        'fault': {'kind': fk, 'kf': round(rng.uniform(0.05, 0.95), 4)}})
            saves += 2
            if fk == 'crash_write':
                ops.append({'op': 'RESTART'})
            ops.append({'op': 'RELOAD', 'slot': slot, 'fault': None})
        elif kind == 'RELOAD':
            if saves:
                ops.append({'op': 'RELOAD', 'slot': last_save['slot'] if rng.chance(0.5) else rng.randrange(4), 'fault': gen_fault(rf)})
        elif kind == 'DELETE':
            ops.append({'op': 'DELETE', 'target': gen_key()})
    return {
        'format': 1,
        'property': PROP,
        'run_seed': run_seed,
        'stream': stream,
        'config': {'fault_free': fault_free, 'write_faults': wf, 'read_faults': rf, 'damage_kinds': dk, 'p_fault': p_fault,
                   'paths_as': rng.pick(['str', 'str', 'Path', 'cwd'] if all(d['fmt'] != 'gromacs' for d in datasets) else ['str', 'str', 'Path'])},
        # ('cwd': the caller sits in the dataset directory and uses bare file names; not with GROMACS, whose caches pickle MDAnalysis
        #  readers that re-open the trajectory by the relative name they were given)
        'world': {'datasets': datasets, 'argsets': argsets},
        'ops': ops,
    }


# ---------------------------------------------------------------------------
# execution


class Run:
    def __init__(self, scenario: dict, workdir: str, keep_events: bool = False):
        self.sc = scenario
        self.workdir = workdir
        self.trace = Trace(keep=keep_events)
        self.stats = Stats()
        self.fs = SimFS()
        self.datasets = scenario['world']['datasets']
        self.ref_memo: dict = {}
        self.keys: dict = {}  # key_str -> {'key', 'path' (effective, may be None)}
        self.fowner: dict = {}  # cache path -> (ds, args) whose REF the complete file holds
        self.fstate: dict = {}  # cache path -> 'absent'|'complete'|'damaged'|'unknown' (per file: keys may share one)
        self.saves: dict = {}  # slot -> {'path','state','rec'}
        self.pool: list = []
        self.touched: list = []
        self.step = -1
        self.default_loaded: dict = {}  # ds -> {args idx}
        self.oracle_checks = 0

    # -- world ---------------------------------------------------------
    def build_world(self):
        for i, d in enumerate(self.datasets):
            simfs.EXTRA_SOURCES.update(worlds.source_basenames(d))
            worlds.write_dataset(d, self.ddir(i))
        for dd in sorted({self.ddir(i) for i in range(len(self.datasets))}):
            shutil.copytree(dd, os.path.join('ref', dd))
        for i, d in enumerate(self.datasets):
            if d.get('unwrapped'):
                self.stats.probe('dataset_with_unwrapped_source_coordinates')
            if any(isinstance(a.get('temperature'), int) and 311 < a['temperature'] < 399 for a in (self.sc['world'].get('argsets') or [[]] * (i + 1))[i]):
                self.stats.probe('anagram_twin_argsets')
        self.trace.log(ev='world', datasets=[{k: v for k, v in d.items()} for d in self.datasets])

    def n_argsets(self, ds: int) -> int:
        a = self.sc['world'].get('argsets')
        return len(a[ds]) if a else len(worlds.ARGSETS[self.datasets[ds]['fmt']])

    def argset(self, ds: int, idx: int) -> dict:
        a = self.sc['world'].get('argsets')
        return a[ds][idx] if a else worlds.ARGSETS[self.datasets[ds]['fmt']][idx]

    def ddir(self, ds: int) -> str:
        """Directory of a dataset; several datasets (with their own file stems) may share one."""
        return f"d{self.datasets[ds].get('dir', ds)}"

    def _call_loader(self, ds: int, args_idx: int, dirpath: str, cache):
        from gemdat import Trajectory

        d = self.datasets[ds]
        argset = self.argset(ds, args_idx)
        mode = self.sc.get('config', {}).get('paths_as')
        in_cwd = mode == 'cwd' and not dirpath.startswith('refrun')
        if in_cwd:
            # the caller works inside the dataset directory and names the files by their bare names
            if cache is not None:
                cache = os.path.relpath(cache, dirpath)
            name, kw = worlds.loader_call(d['fmt'], '.', argset, cache, dataset=d)
            kw = {k: (v[2:] if isinstance(v, str) and v.startswith('./') else v) for k, v in kw.items()}
            here = os.getcwd()
            os.chdir(dirpath)
            try:
                return getattr(Trajectory, name)(**kw)
            finally:
                os.chdir(here)
        name, kw = worlds.loader_call(d['fmt'], dirpath, argset, cache, dataset=d)
        if mode == 'Path':
            from pathlib import Path

            kw = {k: (Path(v) if k in ('coords_file', 'data_file', 'xml_file', 'topology_file', 'cache') and isinstance(v, str) else v) for k, v in kw.items()}
        return getattr(Trajectory, name)(**kw)

    def ref(self, ds: int, args_idx: int) -> dict:
        m = self.ref_memo.get((ds, args_idx))
        if m is not None:
            return m
        # a fresh pristine copy of the sources for every reference parse: no cache of any name or location can be present
        self._ref_serial = getattr(self, '_ref_serial', 0) + 1
        refroot = os.path.join('refrun', str(self._ref_serial))
        refdir = os.path.join(refroot, self.ddir(ds))
        shutil.copytree(os.path.join('ref', self.ddir(ds)), refdir)
        installed = self.fs.installed
        if installed:
            self.fs.uninstall()
        try:
            try:
                T = self._call_loader(ds, args_idx, refdir, None)
                rec = traj_record(T)
                m = {'kind': 'traj', 'rec': rec, 'size': len(pickle.dumps(T)), 'obj': T}
            except Exception as e:
                m = {'kind': 'exc', 'type': type(e).__name__, 'msg': str(e)[:200]}
        finally:
            if installed:
                self.fs.install()
        shutil.rmtree(refroot, ignore_errors=True)
        self.ref_memo[(ds, args_idx)] = m
        return m

    # -- helpers ---------------------------------------------------------
    def explicit_path(self, key) -> str | None:
        if key['cache'] == 'default':
            return None
        if key['cache'] == 'x1':
            # a name a user would pick: the source's stem + '.cache', next to the source (one per argument set would collide,
            # so only the first argument set of a dataset gets it)
            dd = self.datasets[key['ds']]
            stem = dd.get('stem') or {'lammps': 'coords', 'vasp': 'vasprun', 'gromacs': 'traj'}[dd['fmt']]
            if key['args'] == 0:
                return os.path.join(self.ddir(key['ds']), f'{stem}.cache')
        return os.path.join(self.ddir(key['ds']), f"explicit_d{key['ds']}_a{key['args']}_{key['cache']}.cache")

    def dir_snapshot(self, ds: int) -> dict:
        out = {}
        for root, _dirs, files in os.walk(self.ddir(ds)):
            for n in files:
                p = os.path.join(root, n)
                if is_cache(p):
                    st = os.stat(p)
                    out[p] = (st.st_size, st.st_mtime_ns, st.st_ino)
        return out

    def plain_load(self, path):
        """Read a cache file the way the library itself does (Trajectory.from_cache), with no fault armed: the
        harness never assumes the on-disk format."""
        from gemdat import Trajectory

        armed, log, wc = self.fs.armed, self.fs.log, self.fs.write_calls
        self.fs.armed = None
        try:
            return Trajectory.from_cache(path)
        finally:
            self.fs.armed, self.fs.log, self.fs.write_calls = armed, log, wc

    def probe_reader(self, path):
        """Run the library's reader on ``path`` in a forked grandchild: ('returned', None) | ('raised', type name) |
        ('killed', signal name).  A corrupted pickle can take the interpreter down (C extensions re-opening files with
        garbage parameters); that must be observed, not suffered by the run itself."""
        import signal

        r, w = os.pipe()
        pid = os.fork()
        if pid == 0:
            code = 0
            try:
                os.close(r)
                try:
                    self.plain_load(path)
                    os.write(w, b'returned')
                except Exception as e:  # noqa: BLE001
                    os.write(w, ('raised ' + type(e).__name__).encode())
            except BaseException:  # noqa: BLE001
                code = 3
            finally:
                os._exit(code)
        os.close(w)
        data = b''
        while True:
            b = os.read(r, 4096)
            if not b:
                break
            data += b
        os.close(r)
        _, status = os.waitpid(pid, 0)
        if os.WIFSIGNALED(status):
            return 'killed', signal.Signals(os.WTERMSIG(status)).name
        txt = data.decode()
        if txt == 'returned':
            return 'returned', None
        if txt.startswith('raised '):
            return 'raised', txt[7:]
        raise HarnessError(f'reader probe failed: status {status}, output {txt!r}')

    def resolve_fault(self, f, size_est: int):
        if not f:
            return None
        f = dict(f)
        if f['kind'] in WRITE_FAULTS:
            if 'k' in f:
                k = f['k']
            elif 'kt' in f:
                k = max(0, size_est - f['kt'])
            else:
                k = int(f.get('kf', 0.5) * size_est)
            f['k'] = int(k)
        return f

    def violation(self, cls, detail, signature=None):
        raise Violation(f'{PROP}/{cls}', detail, signature or {}, self.step)

    def key_entry(self, key):
        ks = key_str(key)
        e = self.keys.get(ks)
        if e is None:
            e = {'key': dict(key), 'path': self.explicit_path(key)}
            self.keys[ks] = e
        return e

    def state_of(self, entry) -> str:
        if 'rec' in entry:  # a SAVE slot
            return entry['state']
        return self.fstate.get(entry['path'], 'absent') if entry['path'] else 'absent'

    def set_state(self, entry, state: str):
        if 'rec' in entry:
            entry['state'] = state
        elif entry['path']:
            self.fstate[entry['path']] = state

    # -- ops ---------------------------------------------------------------
    def load_in_worker_process(self, ds, key):
        """The loader call made from a multiprocessing worker (fork context), as in a parallel analysis script; the armed
        fault, the record of opened files and the result travel back through a pipe."""
        import multiprocessing as mp

        ctx = mp.get_context('fork')
        parent_conn, child_conn = ctx.Pipe(duplex=False)

        def target(conn):
            try:
                try:
                    T = self._call_loader(ds, key['args'], self.ddir(ds), self.explicit_path(key))
                    msg = ('ret', pickle.dumps(T))
                except SimCrash:
                    msg = ('crash', None)
                except Exception as e:  # noqa: BLE001
                    msg = ('exc', (type(e).__name__, isinstance(e, OSError), getattr(e, 'errno', None), str(e)[:300]))
                conn.send((msg, self.fs.armed, self.fs.log))
            finally:
                conn.close()

        proc = ctx.Process(target=target, args=(child_conn,))
        proc.start()
        child_conn.close()
        try:
            msg, armed, log = parent_conn.recv()
        except EOFError:
            proc.join()
            raise HarnessError(f'worker process died (exit code {proc.exitcode})')
        proc.join()
        self.fs.armed, self.fs.log = armed, log
        self.stats.probe('load_in_multiprocessing_worker')
        if msg[0] == 'ret':
            return 'ret', pickle.loads(msg[1]), None
        if msg[0] == 'crash':
            return 'crash', None, None
        name, is_os, eno, text = msg[1]
        exc = OSError(eno, text) if is_os else type(name, (Exception,), {})(text)
        return 'exc', None, exc

    def op_load(self, op, epilogue=False):
        key = {'ds': op['ds'] % len(self.datasets), 'args': op['args'], 'cache': op['cache']}
        ds = key['ds']
        d = self.datasets[ds]
        key['args'] %= self.n_argsets(ds)
        ref = self.ref(ds, key['args'])
        entry = self.key_entry(key)
        if key_str(key) not in self.touched:
            self.touched.append(key_str(key))
        fault = self.resolve_fault(op.get('fault'), ref.get('size', 600))
        before = self.dir_snapshot(ds)
        state_before = self.state_of(entry)
        self.fs.begin_op(fault)
        outcome = None
        T = None
        exc = None
        try:
            if op.get('mp'):
                outcome, T, exc = self.load_in_worker_process(ds, key)
            else:
                try:
                    T = self._call_loader(ds, key['args'], self.ddir(ds), self.explicit_path(key))
                    outcome = 'ret'
                except SimCrash:
                    outcome = 'crash'
                except Exception as e:  # noqa: BLE001
                    outcome = 'exc'
                    exc = e
        finally:
            armed = self.fs.end_op()
        oplog = list(self.fs.log)
        fired = bool(armed and armed.get('fired'))
        if fired:
            self.stats.fault(armed['kind'])
            if armed.get('call_boundary'):
                self.stats.probe('fault_on_write_call_boundary')
        src_opened = any((not is_cache(p)) for p, m in oplog)
        cache_reads = [p for p, m in oplog if is_cache(p) and 'r' in m]
        cache_writes = [p for p, m in oplog if is_cache(p) and any(c in m for c in 'wax')]
        if cache_reads and src_opened and outcome == 'ret':
            self.stats.probe('fallback_taken')
        if cache_reads and not src_opened and outcome == 'ret':
            self.stats.probe('cache_hit')
        kb = 'na'
        if fired and armed['kind'] in WRITE_FAULTS:
            k, n = armed.get('fired_at', 0), max(1, ref.get('size', 1))
            kb = '0' if k == 0 else '1' if k == 1 else 'head' if k < 64 else 'N' if k >= n else 'last2' if k >= n - 2 else 'bulk'
        self.stats.state(d['fmt'], state_before, armed['kind'] if fired else 'none', kb, outcome)
        after = self.dir_snapshot(ds)
        changed = sorted(p for p in after if before.get(p) != after[p])

        # effective path bookkeeping
        if entry['path'] is None:
            cands = [p for p in cache_reads + cache_writes if os.path.normpath(p).split(os.sep)[0] == self.ddir(ds)]
            cands += [p for p in changed if not os.path.basename(p).startswith(('explicit_', 'save_'))]
            if cands:
                entry['path'] = cands[0] if os.path.exists(cands[0]) or len(cands) == 1 else next((c for c in cands if os.path.exists(c)), cands[0])

        self.trace.log(
            ev='LOAD', step=self.step, key=key_str(key), fault=armed if fired else None, outcome=outcome,
            exc=type(exc).__name__ if exc is not None else None,
            result=rec_fp(traj_record(T)) if outcome == 'ret' and hasattr(T, 'coords') else None,
            src_opened=src_opened, n_cache_reads=len(cache_reads), n_cache_writes=len(cache_writes), epilogue=epilogue,
        )

        sig = {'fmt': d['fmt']}
        write_fault_fired = fired and armed['kind'] in WRITE_FAULTS
        if fired and armed['kind'] == 'vanish':
            for p in cache_reads:
                if not os.path.exists(p):
                    self.fstate[p] = 'absent'
        if outcome == 'crash':
            if not (fired and armed['kind'] == 'crash_write'):
                raise HarnessError('SimCrash without armed crash')
            self.set_state(entry, 'unknown')
            self.pool.clear()
            return
        self.oracle_checks += 1
        if outcome == 'exc':
            if ref['kind'] == 'exc':
                if type(exc).__name__ != ref['type']:
                    if write_fault_fired and isinstance(exc, OSError):
                        self.set_state(entry, 'unknown')
                        return
                    self.violation('wrong_exception', f"{key_str(key)}: raised {type(exc).__name__} but a clean parse raises {ref['type']}", {**sig, 'exc': type(exc).__name__})
                return
            if write_fault_fired and isinstance(exc, OSError) and exc.errno == (28 if armed['kind'] == 'enospc' else 5):
                self.set_state(entry, 'unknown')
                self.stats.probe('write_error_propagated')
                return
            self.violation(
                'load_raised',
                f"{key_str(key)} ({d['fmt']}): loader raised {type(exc).__name__}: {str(exc)[:200]} "
                f"(cache state before: {state_before}, fault: {armed['kind'] if fired else None}) but parsing the sources succeeds",
                {**sig, 'exc': type(exc).__name__},
            )
        # outcome == 'ret'
        if ref['kind'] == 'exc':
            self.violation(
                'stale_cache_returned',
                f"{key_str(key)} ({d['fmt']}, args {self.argset(ds, key['args'])}): returned a trajectory from "
                f"{'cache' if not src_opened else 'parse'} but parsing the sources with these arguments raises {ref['type']}",
                {**sig, 'args': key['args']},
            )
        if not hasattr(T, 'coords'):
            self.violation('wrong_trajectory', f'{key_str(key)}: loader returned {type(T).__name__}', sig)
        diff = rec_diff(ref['rec'], traj_record(T))
        if diff:
            self.violation(
                'wrong_trajectory',
                f"{key_str(key)} ({d['fmt']}, args {self.argset(ds, key['args'])}): result differs from a clean parse: {diff} "
                f"(served from {'cache' if not src_opened else 'sources'})",
                {**sig, 'args': key['args']},
            )
        self.pool.append(T)
        if len(self.pool) > 8:
            self.pool.pop(0)
        if write_fault_fired:
            # the loader swallowed the write error: file may be anything
            self.set_state(entry, 'unknown')
            return
        # R4: a complete cache is left behind
        cands = []
        if self.explicit_path(key):
            cands.append(self.explicit_path(key))
        else:
            cands += [p for p in dict.fromkeys(cache_reads + cache_writes + changed)]
        cands = [p for p in cands if os.path.isfile(p)]
        ok = False
        why = 'no cache file found'
        for p in cands:
            try:
                obj = self.plain_load(p)
                dd = rec_diff(ref['rec'], traj_record(obj))
                if dd is None:
                    ok = True
                    entry['path'] = p
                    self.fowner[p] = (ds, key['args'])
                    break
                why = f'{p}: holds a different trajectory: {dd}'
            except Exception as e:  # noqa: BLE001
                why = f'{p}: does not un-pickle: {type(e).__name__}'
        if not ok:
            self.violation(
                'no_complete_cache',
                f"{key_str(key)} ({d['fmt']}): load returned but left no complete cache behind ({why}; cache state before: {state_before})",
                sig,
            )
        if state_before in ('damaged', 'unknown'):
            self.stats.probe('healed_after_damage' if state_before == 'damaged' else 'healed_after_crash')
        self.set_state(entry, 'complete')
        # R5 key separation
        if key['cache'] == 'default':
            # argument sets whose default cache the model currently believes complete (not deleted / damaged since)
            # ... over all datasets that live in this directory
            s = sorted(
                (e['key']['ds'], e['key']['args']) for e in self.keys.values()
                if self.ddir(e['key']['ds']) == self.ddir(ds) and e['key']['cache'] == 'default' and self.state_of(e) == 'complete'
            )
            distinct = []
            for dsx, a in s:
                r = self.ref(dsx, a)
                if r['kind'] == 'traj' and not any(rec_diff(r['rec'], q) is None for q in distinct):
                    distinct.append(r['rec'])
            stems = tuple((self.datasets[i].get('stem') or 'coords') + '.cache' for i in range(len(self.datasets))) + ('vasprun.cache', 'traj.cache')
            files = [p for p in self.dir_snapshot(ds) if not os.path.basename(p).startswith(('explicit_', 'save_')) and os.path.basename(p) not in stems]
            if len(files) < len(distinct):
                self.violation(
                    'key_collision',
                    f"dataset {ds} ({d['fmt']}): {len(distinct)} argument sets with different results were loaded with the default cache "
                    f"but only {len(files)} cache files exist",
                    sig,
                )

    def _target_path(self, tgt):
        if 'save' in tgt:
            e = self.saves.get(tgt['save'] % 4)
            return (e['path'], e) if e else (None, None)
        key = {'ds': tgt['ds'] % len(self.datasets), 'args': tgt['args'], 'cache': tgt['cache']}
        e = self.keys.get(key_str(key))
        if not e or not e['path']:
            return None, None
        return e['path'], e

    def op_damage(self, op):
        path, entry = self._target_path(op['target'])
        if not path or not os.path.isfile(path):
            self.trace.log(ev='DAMAGE', step=self.step, skipped=True)
            return
        with REAL_OPEN(path, 'rb') as f:
            orig = f.read()
        n = len(orig)
        kind = op['kind']
        if kind == 'empty':
            new = b''
            k = 0
        elif kind == 'text':
            new = b'this is not a pickle\n'
            k = 0
        else:
            if 'k' in op:
                k = max(0, min(int(op['k']), n))
            else:
                k = min(int(op.get('kf', 0.5) * n), max(0, n - 1))
            if kind == 'truncate':
                new = orig[:k]
            elif kind == 'zero_tail':
                new = orig[:k] + b'\x00' * (n - k)
            elif kind == 'ff_tail':
                new = orig[:k] + b'\xff' * (n - k)
            elif kind == 'rand_tail':
                g = np.random.default_rng(op.get('seed', 0))
                new = orig[:k] + g.integers(0, 256, n - k, dtype=np.uint8).tobytes()
            elif kind == 'bitflip':  # one flipped stored bit
                b = bytearray(orig)
                if n:
                    b[min(k, n - 1)] ^= 1 << (op.get('seed', 0) % 8)
                new = bytes(b)
            elif kind == 'prepend':  # a stale block in front of the data
                new = b'\x00' * (1 + k % 7) + orig
            elif kind == 'drop_head':  # the first block was lost
                new = orig[1 + k % 64:]
            else:
                raise HarnessError(f'unknown damage {kind}')
        with REAL_OPEN(path, 'wb') as f:
            f.write(new)
        # premise "unreadable": the library's own reader must raise an Exception on the damaged bytes.  A strict prefix
        # ("truncated at any byte, as an interrupted write leaves it") needs no premise: the property covers it as such.
        unreadable = False
        etype = None
        how, etype = self.probe_reader(path)
        if how == 'killed':
            fmt = self.datasets[entry['key']['ds']]['fmt'] if 'key' in entry else 'save'
            self.stats.fault(kind)
            self.trace.log(ev='DAMAGE', step=self.step, path=os.path.basename(path), kind=kind, k=k, n=n, reader='killed by ' + etype)
            self.violation(
                'load_crashes_interpreter',
                f"{fmt} cache damaged by {kind}@{k} (of {n} bytes): Trajectory.from_cache does not raise, the interpreter dies ({etype}); "
                'the loader calls it unguarded, so loading can never fall back to the source files',
                {'fmt': fmt, 'kind': kind},
            )
        unreadable = how == 'raised'
        if not unreadable and kind in ('truncate', 'empty') and len(new) < n:
            unreadable = True
            etype = 'none_raised'
            self.stats.probe('truncated_cache_still_loads')
        if not unreadable:
            with REAL_OPEN(path, 'wb') as f:
                f.write(orig)
            self.stats.probe('damage_rejected_still_loadable')
            self.trace.log(ev='DAMAGE', step=self.step, path=os.path.basename(path), kind=kind, k=k, rejected=True)
            return
        self.stats.fault(kind)
        self.stats.probe('unpickle_exc_' + etype)
        self.set_state(entry, 'damaged')
        self.trace.log(ev='DAMAGE', step=self.step, path=os.path.basename(path), kind=kind, k=k, n=n, exc=etype)

    def op_delete(self, op):
        path, entry = self._target_path(op['target'])
        if not path or not os.path.isfile(path):
            self.trace.log(ev='DELETE', step=self.step, skipped=True)
            return
        os.unlink(path)
        self.set_state(entry, 'absent')
        self.trace.log(ev='DELETE', step=self.step, path=os.path.basename(path))

    def op_save(self, op):
        if not self.pool:
            self.trace.log(ev='SAVE', step=self.step, skipped=True)
            return
        src = self.pool[op['src'] % len(self.pool)]
        obj = src
        dv = op.get('derive')
        try:
            if dv == 'slice' and len(src) > 2:
                obj = src[1:]
            elif dv == 'filter':
                obj = src.filter(str(src.species[0].symbol))
            elif dv == 'disp':
                obj = copy.deepcopy(src)
                obj.to_displacements()
            elif dv == 'flip_inplace':  # the pooled object itself changes representation, then is saved (again)
                if src.coords_are_displacement:
                    src.to_positions()
                else:
                    src.to_displacements()
            elif dv == 'extend_inplace' and len(src) > 2 and len(src) < 64 and src.site_properties is None:
                src.extend(src[1:3])
            elif dv == 'rich_metadata':  # free-form annotations of many types must survive the round trip as well
                obj = copy.deepcopy(src)
                obj.metadata = dict(obj.metadata, **rich_metadata(op.get('seed', 0)))
            elif dv == 'perframe_props':  # a longer trajectory with per-frame site properties that differ on a few frames only
                from pymatgen.core import Element, Lattice

                from gemdat import Trajectory

                g = np.random.default_rng(op.get('seed', 0))
                nf = int(g.integers(200, 420))
                na = 2
                props = [{'magmom': [1.0, -1.0], 'tag': ['a', 'b']} for _ in range(nf)]
                for fr in g.integers(1, nf - 1, size=int(g.integers(1, 4))):
                    props[int(fr)] = {'magmom': [-1.0, 1.0], 'tag': ['a', 'b']}
                obj = Trajectory(species=[Element('Li'), Element('S')], coords=g.random((nf, na, 3)), lattice=Lattice.cubic(5.0), time_step=1e-15,
                                 metadata={'temperature': 300}, site_properties=props)
            elif dv == 'sized':  # serialised size placed on / next to a power of two (buffer and chunk boundaries)
                def measure(o):
                    self.fs.begin_op(None)
                    try:
                        o.to_cache('save_probe.cache')
                    finally:
                        self.fs.end_op()
                    n = os.path.getsize('save_probe.cache')
                    os.unlink('save_probe.cache')
                    return n

                objs = sized_copies(src, op.get('size_target', 1 << 16), measure)
                if not objs:
                    self.trace.log(ev='SAVE', step=self.step, skipped='cannot reach size')
                    return
                # the neighbours are saved (and read back) first, the best fit goes through the common path below
                for o in objs[:-1]:
                    rec0 = traj_record(o, raw=True)
                    self.fs.begin_op(None)
                    try:
                        o.to_cache(f"save_{op['slot'] % 4}.cache")
                    finally:
                        self.fs.end_op()
                    self.saves[op['slot'] % 4] = {'path': f"save_{op['slot'] % 4}.cache", 'state': 'complete', 'rec': rec0}
                    self.oracle_checks += 1
                    self.check_saved(op['slot'] % 4, via_seam=False)
                obj = objs[-1]
        except Violation:
            raise
        except Exception as e:  # noqa: BLE001  (not C16's business)
            self.trace.log(ev='SAVE', step=self.step, skipped=True, derive_exc=type(e).__name__)
            return
        slot = op['slot'] % 4
        path = f'save_{slot}.cache'
        rec = traj_record(obj, raw=True)
        fault = self.resolve_fault(op.get('fault'), len(pickle.dumps(obj)))
        self.fs.begin_op(fault)
        outcome = 'ret'
        exc = None
        try:
            try:
                obj.to_cache(path)
            except SimCrash:
                outcome = 'crash'
            except Exception as e:  # noqa: BLE001
                outcome = 'exc'
                exc = e
        finally:
            armed = self.fs.end_op()
        fired = bool(armed and armed.get('fired'))
        if fired:
            self.stats.fault(armed['kind'])
        self.trace.log(ev='SAVE', step=self.step, slot=slot, derive=dv, outcome=outcome, fault=armed if fired else None, rec=rec_fp(rec))
        self.stats.state('save', dv, armed['kind'] if fired else 'none', outcome)
        if outcome == 'crash':
            self.saves[slot] = self.unknown_save(slot, path, rec)
            self.pool.clear()
            return
        self.oracle_checks += 1
        if outcome == 'exc':
            if fired and isinstance(exc, OSError):
                self.saves[slot] = self.unknown_save(slot, path, rec)
                return
            self.violation('save_raised', f'to_cache raised {type(exc).__name__}: {exc}', {'exc': type(exc).__name__})
        dd = rec_diff(rec, traj_record(obj, raw=True), tol=0)
        if dd:
            self.violation('save_mutated_object', f'to_cache changed the trajectory it saved: {dd}', {})
        if fired:
            self.saves[slot] = self.unknown_save(slot, path, rec)
            return
        self.saves[slot] = {'path': path, 'state': 'complete', 'rec': rec}
        # R1 immediately: what is on disk must be the object
        self.check_saved(slot, via_seam=False)

    def unknown_save(self, slot, path, rec):
        """After a faulted save the file may hold the new object, or (atomic implementations) what it held before."""
        old = self.saves.get(slot)
        alts = []
        if old and old['state'] in ('complete', 'unknown'):
            alts = [old['rec']] + list(old.get('alts', []))
        return {'path': path, 'state': 'unknown', 'rec': rec, 'alts': alts[:4]}

    def check_saved(self, slot, via_seam: bool):
        e = self.saves[slot]
        from gemdat import Trajectory

        try:
            obj = Trajectory.from_cache(e['path']) if via_seam else self.plain_load(e['path'])
        except Exception as ex:  # noqa: BLE001
            self.violation('roundtrip_unreadable', f"cache written by to_cache does not load back: {type(ex).__name__}: {ex}", {})
        dd = rec_diff(e['rec'], traj_record(obj, raw=True), tol=0) if hasattr(obj, 'coords') else f'type {type(obj).__name__}'
        if dd:
            self.violation('roundtrip_mismatch', f'save/load round trip changed the trajectory: {dd}', {})

    def op_reload(self, op):
        e = self.saves.get(op['slot'] % 4)
        if not e or not os.path.isfile(e['path']):
            self.trace.log(ev='RELOAD', step=self.step, skipped=True)
            return
        from gemdat import Trajectory

        fault = self.resolve_fault(op.get('fault'), 0)
        self.fs.begin_op(fault)
        outcome = 'ret'
        exc = None
        obj = None
        try:
            try:
                obj = Trajectory.from_cache(e['path'])
            except Exception as ex:  # noqa: BLE001
                outcome = 'exc'
                exc = ex
        finally:
            armed = self.fs.end_op()
        fired = bool(armed and armed.get('fired'))
        if fired:
            self.stats.fault(armed['kind'])
        if fired and armed['kind'] == 'vanish':
            e['state'] = 'absent'
        self.trace.log(ev='RELOAD', step=self.step, slot=op['slot'] % 4, outcome=outcome, state=e['state'], fault=armed if fired else None,
                       exc=type(exc).__name__ if exc else None)
        self.oracle_checks += 1
        if outcome == 'exc':
            if e['state'] == 'complete' and not fired:
                self.violation('roundtrip_unreadable', f"from_cache raised {type(exc).__name__} on an intact cache", {})
            return
        # it returned: it must be the saved object, never wrong data
        dd = rec_diff(e['rec'], traj_record(obj, raw=True), tol=0) if hasattr(obj, 'coords') else f'type {type(obj).__name__}'
        if dd and e['state'] == 'unknown' and hasattr(obj, 'coords'):
            # an interrupted save is not acknowledged: the old content is as good as the new one, garbage is not
            if any(rec_diff(a, traj_record(obj, raw=True), tol=0) is None for a in e.get('alts', [])):
                self.stats.probe('old_version_after_failed_save')
                dd = None
        if dd:
            self.violation('roundtrip_mismatch', f"from_cache returned a different trajectory than was saved ({dd}; file state {e['state']})", {})
        if fired and armed['kind'] == 'vanish':
            e['state'] = 'absent'

    # -- invariants after every step -------------------------------------------
    def check_complete_files(self):
        for path, st in self.fstate.items():
            if st != 'complete':
                continue
            ds, a = self.fowner[path]
            ref = self.ref(ds, a)
            try:
                obj = self.plain_load(path)
                dd = rec_diff(ref['rec'], traj_record(obj))
            except Exception as ex:  # noqa: BLE001
                dd = f'does not un-pickle: {type(ex).__name__}'
            self.oracle_checks += 1
            if dd:
                self.violation('neighbour_cache_damaged', f"cache {path} (complete for dataset {ds} args {a}) is now broken: {dd}", {})
        for slot, e in self.saves.items():
            if e['state'] == 'complete':
                self.oracle_checks += 1
                self.check_saved(slot, via_seam=False)

    # -- main ----------------------------------------------------------------------
    def run(self):
        self.build_world()
        self.fs.install()
        try:
            for i, op in enumerate(self.sc['ops']):
                self.step = i
                kind = op['op']
                if kind == 'LOAD':
                    self.op_load(op)
                elif kind == 'DAMAGE':
                    self.op_damage(op)
                elif kind == 'DELETE':
                    self.op_delete(op)
                elif kind == 'SAVE':
                    self.op_save(op)
                elif kind == 'RELOAD':
                    self.op_reload(op)
                elif kind == 'RESTART':
                    self.pool.clear()
                    self.trace.log(ev='RESTART', step=i)
                else:
                    raise HarnessError(f'unknown op {kind}')
                self.check_complete_files()
            # bounded liveness: once faults stop, two loads per touched key
            self.step = len(self.sc['ops'])
            for ks in list(self.touched):
                key = self.keys[ks]['key']
                for _ in range(2):
                    self.op_load({'op': 'LOAD', **key, 'fault': None}, epilogue=True)
                if self.ref(key['ds'], key['args'])['kind'] == 'traj' and self.state_of(self.keys[ks]) != 'complete':
                    self.violation('no_recovery', f'{ks}: no complete cache after two fault-free loads', {})
            self.check_complete_files()
        finally:
            self.fs.uninstall()


def execute_real_death(scenario: dict, workdir: str, keep_events: bool = False) -> dict:
    """Cross-check of the in-process crash model: the loader runs in a fresh interpreter that really dies
    (os._exit) at byte k of the cache write; a second fresh interpreter performs two recovery loads."""
    import subprocess

    run = Run(scenario, workdir, keep_events)
    run.build_world()
    d = scenario['world']['datasets'][0]
    a, k = scenario['rd']['args'], scenario['rd']['k']
    ref = run.ref(0, a)
    helper = os.path.join(os.path.dirname(os.path.dirname(os.path.abspath(__file__))), 'sim', 'real_death_child.py')
    with REAL_OPEN('dataset.json', 'w') as f:
        json.dump(d, f)
    violation = None
    env = dict(os.environ)
    try:
        run.step = 0
        p1 = subprocess.run([sys.executable, helper, 'crash', d['fmt'], 'd0', str(a), str(k)], capture_output=True, timeout=300, env=env)
        files = sorted(p for p in run.dir_snapshot(0))
        sizes = [os.path.getsize(p) for p in files]
        run.trace.log(ev='REAL_CRASH', k=k, exit=p1.returncode, n_files=len(files), sizes=sizes)
        if p1.returncode != 137:
            raise HarnessError(f'crash child exited {p1.returncode}: {p1.stderr[-400:]!r}')
        run.stats.fault('real_process_death')
        if sizes and sizes[0] != min(k, ref['size']):
            run.stats.probe('real_death_size_differs_from_k')
        run.step = 1
        outp = os.path.join(workdir, 'recover.pkl')
        p2 = subprocess.run([sys.executable, helper, 'recover', d['fmt'], 'd0', str(a), outp], capture_output=True, timeout=300, env=env)
        if p2.returncode != 0:
            raise HarnessError(f'recover child exited {p2.returncode}: {p2.stderr[-400:]!r}')
        with REAL_OPEN(outp, 'rb') as f:
            outs = pickle.load(f)
        for i, o in enumerate(outs):
            run.oracle_checks += 1
            run.trace.log(ev='REAL_RECOVER', i=i, outcome=o[0], rec=rec_fp(o[1]) if o[0] == 'ret' else o[1])
            if o[0] == 'exc':
                run.violation('load_raised', f'after a real process death at byte {k} of the cache write, load {i + 1} raised {o[1]}: {o[2]}', {'fmt': d['fmt'], 'exc': o[1]})
            dd = rec_diff(ref['rec'], o[1])
            if dd:
                run.violation('wrong_trajectory', f'after a real process death at byte {k}, load {i + 1} differs from a clean parse: {dd}', {'fmt': d['fmt'], 'args': a})
        ok = False
        for pth in run.dir_snapshot(0):
            try:
                if rec_diff(ref['rec'], traj_record(run.plain_load(pth))) is None:
                    ok = True
            except Exception:  # noqa: BLE001
                pass
        run.oracle_checks += 1
        if not ok:
            run.violation('no_recovery', f'after a real process death at byte {k} and two loads no complete cache exists', {'fmt': d['fmt']})
        run.stats.probe('healed_after_real_death')
    except Violation as v:
        violation = v.to_json()
        run.trace.log(ev='VIOLATION', cls=v.cls, step=v.step)
    return {
        'digest': run.trace.digest(), 'violation': violation, 'stats': run.stats.to_json(), 'steps': run.trace.n,
        'oracle_checks': run.oracle_checks, 'nontrivial': True, 'fault_free': False,
        **({'events': run.trace.events} if keep_events else {}),
    }


def execute(scenario: dict, workdir: str, keep_events: bool = False) -> dict:
    if scenario.get('rd'):
        return execute_real_death(scenario, workdir, keep_events)
    run = Run(scenario, workdir, keep_events)
    violation = None
    try:
        run.run()
    except Violation as v:
        violation = v.to_json()
        run.trace.log(ev='VIOLATION', cls=v.cls, step=v.step)
    st = run.stats
    nontrivial = bool(st.faults) and run.oracle_checks > 0
    res = {
        'digest': run.trace.digest(),
        'violation': violation,
        'stats': st.to_json(),
        'steps': run.trace.n,
        'oracle_checks': run.oracle_checks,
        'nontrivial': nontrivial,
        'fault_free': scenario.get('config', {}).get('fault_free', False),
    }
    if keep_events:
        res['events'] = run.trace.events
    return res


# ---------------------------------------------------------------------------
# shrinking support


def simplify(sc: dict):
    """Yield simpler variants of a failing scenario."""
    ops = sc['ops']
    # drop faults, simplify offsets
    for i, op in enumerate(ops):
        f = op.get('fault')
        if f:
            c = copy.deepcopy(sc)
            c['ops'][i]['fault'] = None
            yield c
            for alt in ({'k': 0}, {'kt': 0}, {'kf': 0.5}):
                if f['kind'] in WRITE_FAULTS and not all(f.get(k) == v for k, v in alt.items()):
                    c = copy.deepcopy(sc)
                    nf = {'kind': f['kind'], **alt}
                    c['ops'][i]['fault'] = nf
                    yield c
        if op['op'] == 'DAMAGE':
            if op['kind'] not in ('truncate', 'empty'):
                c = copy.deepcopy(sc)
                c['ops'][i]['kind'] = 'truncate'
                yield c
            if op.get('kf') not in (None, 0.5) or 'k' in op:
                c = copy.deepcopy(sc)
                c['ops'][i].pop('k', None)
                c['ops'][i]['kf'] = 0.5
                yield c
        if op['op'] == 'LOAD' and op['cache'] != 'default':
            c = copy.deepcopy(sc)
            tgt = {'ds': op['ds'], 'args': op['args'], 'cache': op['cache']}
            for o in c['ops']:
                if o['op'] == 'LOAD' and all(o.get(k) == v for k, v in tgt.items()):
                    o['cache'] = 'default'
                if o.get('target') and all(o['target'].get(k) == v for k, v in tgt.items()):
                    o['target']['cache'] = 'default'
            yield c
        if op['op'] == 'SAVE' and op.get('derive'):
            c = copy.deepcopy(sc)
            c['ops'][i]['derive'] = None
            yield c
    # world: fewer datasets (only if all ops reference ds 0 after modulo), smaller datasets
    ds = sc['world']['datasets']
    used = {o.get('ds', (o.get('target') or {}).get('ds')) for o in ops} - {None}
    if len(ds) > 1:
        for keep in range(len(ds)):
            if used <= {keep} or len(used) <= 1:
                c = copy.deepcopy(sc)
                k = next(iter(used)) % len(ds) if used else 0
                c['world']['datasets'] = [dict(ds[k])]
                c['world']['datasets'][0].pop('dir', None)
                if c['world'].get('argsets'):
                    c['world']['argsets'] = [c['world']['argsets'][k]]
                for o in c['ops']:
                    if 'ds' in o:
                        o['ds'] = 0
                    if o.get('target') and 'ds' in o['target']:
                        o['target']['ds'] = 0
                yield c
                break
    for i, d in enumerate(ds):
        if d['na'] > 1 or d['nf'] > (4 if d['fmt'] == 'vasp' else 2):
            c = copy.deepcopy(sc)
            dd = c['world']['datasets'][i]
            dd['na'] = max(1, d['na'] // 2)
            dd['species'] = d['species'][: dd['na']]
            dd['nf'] = max(4 if d['fmt'] == 'vasp' else 2, d['nf'] // 2)
            yield c
        if d['lattice']['kind'] != 'cubic':
            c = copy.deepcopy(sc)
            a = d['lattice']['params'][0]
            c['world']['datasets'][i]['lattice'] = {'kind': 'cubic', 'params': [a, a, a, 90.0, 90.0, 90.0], 'rot': None}
            yield c


# ---------------------------------------------------------------------------
# exhaustive crash-point enumeration (E1/E2/E3)


def enum_world(rng: SimRandom, fmt: str) -> dict:
    d = worlds.gen_dataset_params(rng, fmt=fmt, small=True)
    return d


def cache_size_of(dataset: dict, args_idx: int, workdir: str) -> int:
    """Size in bytes of the cache file the loader writes for this dataset, measured on disk in a forked child (so that no
    state of the code under test - e.g. a memo - survives from one measurement to the next, and the parent stays pristine)."""
    r_fd, w_fd = os.pipe()
    pid = os.fork()
    if pid == 0:
        code = 0
        try:
            os.close(r_fd)
            dn = os.open(os.devnull, os.O_WRONLY)
            os.dup2(dn, 1)
            os.dup2(dn, 2)
            sc = {'world': {'datasets': [dataset]}, 'ops': [], 'config': {}}
            os.makedirs(workdir, exist_ok=True)
            os.chdir(workdir)
            run = Run(sc, workdir)
            run.build_world()
            size = 0
            try:
                run._call_loader(0, args_idx, 'd0', None)
                sizes = [v[0] for v in run.dir_snapshot(0).values()]
                size = max(sizes) if sizes else 0
            except Exception:  # noqa: BLE001
                size = 0
            if size <= 0:
                size = run.ref(0, args_idx).get('size', 0)
            os.write(w_fd, str(int(size)).encode())
        except BaseException:  # noqa: BLE001
            code = 3
        finally:
            os._exit(code)
    os.close(w_fd)
    data = b''
    while True:
        b = os.read(r_fd, 64)
        if not b:
            break
        data += b
    os.close(r_fd)
    os.waitpid(pid, 0)
    shutil.rmtree(workdir, ignore_errors=True)
    try:
        return int(data or b'0')
    except ValueError:
        return 0


def enum_scenarios(dataset: dict, args_idx: int, size: int, mode: str, chunk: int = 24, stride: int = 1, kinds=('truncate',)):
    """Scenarios that together cover every offset k in [0, size] (stride 1) for one world.

    E1: [LOAD; for k: DAMAGE kind@k; LOAD; LOAD]
    E2: [for k: DELETE; LOAD fault@k; RESTART; LOAD; LOAD]   (fault = crash_write | enospc)
    """
    key = {'ds': 0, 'args': args_idx, 'cache': 'default'}
    ks = list(range(0, size + 1, stride))
    if ks[-1] != size:
        ks.append(size)
    out = []
    for i in range(0, len(ks), chunk):
        part = ks[i : i + chunk]
        ops = []
        if mode == 'E1':
            ops.append({'op': 'LOAD', **key, 'fault': None})
            for k in part:
                for kind in kinds:
                    if kind == 'truncate' and k >= size:
                        continue
                    if kind == 'bitflip':  # E4: every bit of byte k
                        if k >= size:
                            continue
                        for bit in range(8):
                            ops.append({'op': 'DAMAGE', 'target': dict(key), 'kind': 'bitflip', 'k': k, 'seed': bit})
                            ops.append({'op': 'LOAD', **key, 'fault': None})
                        continue
                    ops.append({'op': 'DAMAGE', 'target': dict(key), 'kind': kind, 'k': k})
                    ops.append({'op': 'LOAD', **key, 'fault': None})
                    ops.append({'op': 'LOAD', **key, 'fault': None})
        else:
            fk = {'E2': 'crash_write', 'E3': 'enospc'}[mode]
            ops.append({'op': 'LOAD', **key, 'fault': None})
            for k in part:
                ops.append({'op': 'DELETE', 'target': dict(key)})
                ops.append({'op': 'LOAD', **key, 'fault': {'kind': fk, 'k': k}})
                ops.append({'op': 'RESTART'})
                ops.append({'op': 'LOAD', **key, 'fault': None})
                ops.append({'op': 'LOAD', **key, 'fault': None})
        out.append({
            'format': 1, 'property': PROP, 'run_seed': None, 'stream': f'enum-{mode}',
            'config': {'fault_free': False, 'enum': mode, 'offsets': [part[0], part[-1]], 'size': size},
            'world': {'datasets': [dataset]}, 'ops': ops,
        })
    return out


# ---------------------------------------------------------------------------
# driver metadata

LEVEL = 'fault_enumeration'
BUDGET = {'quick': 40, 'thorough': 900}
RUN_TIMEOUT = 240
DET_SEEDS = {'quick': 8, 'thorough': 64}
RULE = (
    "Two parts. (1) Enumeration: for seed-chosen small worlds per format, EVERY byte offset k in [0,N] of the cache file written by the real "
    "loader is used as a truncation point (E1: DAMAGE truncate@k; LOAD; LOAD) and as a crash point inside the real pickle.dump through the "
    "SimFS open() seam (E2: LOAD crash_write@k; RESTART; LOAD; LOAD); thorough adds ENOSPC@k (E3), torn tails (zero/0xff) on a stride, and a "
    "large multi-write cache. (2) Seeded sequences: run i is generated from run_seed(i) (swarm config, 1-3 datasets in lammps/vasp/gromacs "
    "format, 4-25 ops LOAD/SAVE/RELOAD/DAMAGE/DELETE/RESTART with write faults, read faults and between-op damage), checked op by op against "
    "REF = the same loader call on a pristine copy without cache. A run is non-trivial if at least one fault or damage actually fired and at "
    "least one oracle comparison was made; distinct = distinct sha256 digests of the canonical event log."
)
STATE_MEASURE = 'distinct (format, cache state before, fault kind fired, offset bucket, outcome) tuples over all LOAD/SAVE ops'
REAL_VS_STUB = {
    'real': ['gemdat.Trajectory loaders/to_cache/from_cache', 'pickle', 'pymatgen LammpsData/Vasprun parsers', 'MDAnalysis readers',
             'file system of the run directory'],
    'simulated': ['open() of cache files (SimFS: unbuffered, fault injecting)', 'process death (SimCrash BaseException; restart = next op sees only the disk)',
                  'between-op damage of cache files'],
    'synthetic_inputs': ['LAMMPS data+xyz, minimal vasprun.xml, GROMACS gro+xtc written by the harness'],
}
ASSUMPTIONS = [
    'a crash leaves a prefix of the bytes handed to write() so far (SimFile is unbuffered); block reordering inside one file is not modelled',
    'REF is computed with the same (current) parser code on a pristine copy of the sources: C16 is about cache-vs-parse equivalence, not parser correctness',
    'damage that leaves a loadable pickle is outside the property and is rejected by the harness (premise "unreadable" is established by plain pickle.load raising)',
    'gemdat.trajectory keeps no in-process state between loader calls, so an in-process restart equals a process restart (cross-checked with real process death in the thorough tier)',
]


def plan_enumeration(tier: str, batch_seed: int, plandir: str):
    rng = SimRandom(int.from_bytes(__import__('hashlib').sha256(f'{PROP}:enum:{batch_seed}'.encode()).digest()[:8], 'big'))
    jobs = []
    info = {'worlds': [], 'sampled_worlds': [], 'exhaustive': True, 'exhaustive_refers_to': "every byte offset of the caches of the worlds listed under 'worlds' (sampled_worlds / large_world are strided)", 'modes': []}
    if tier == 'quick':
        plan = [('lammps', ('E1', 'E2'), 1), ('vasp', ('E1', 'E2'), 1), ('gromacs', ('E1', 'E2'), 6)]
    else:
        plan = []
        for fmt in ('lammps', 'vasp', 'gromacs'):
            for _ in range(3):
                plan.append((fmt, ('E1', 'E2', 'E3'), 1))
    for wi, (fmt, modes, stride) in enumerate(plan):
        d = enum_world(rng, fmt)
        args_idx = 0
        size = cache_size_of(d, args_idx, os.path.join(plandir, f'w{wi}'))
        if size <= 0:
            raise HarnessError(f'could not measure cache size for enumeration world {d}')
        w = {'fmt': fmt, 'dataset': d, 'cache_bytes': size, 'stride': stride, 'modes': list(modes), 'offsets': len(range(0, size + 1, stride)) + (1 if size % stride else 0),
             'exhaustive': stride == 1}
        info['worlds' if stride == 1 else 'sampled_worlds'].append(w)
        for m in modes:
            jobs += enum_scenarios(d, args_idx, size, m, chunk=24, stride=stride)
            if m == 'E1' and tier == 'thorough':
                jobs += enum_scenarios(d, args_idx, size, 'E1', chunk=24, stride=7, kinds=('zero_tail', 'ff_tail'))
                if wi % 3 == 0:  # E4: single-bit flips, every bit of every 3rd byte, one world per format
                    jobs += enum_scenarios(d, args_idx, size, 'E1', chunk=8, stride=3, kinds=('bitflip',))
                    w['bitflip_bytes'] = len(range(0, size, 3))
    if tier == 'quick':
        # one world whose coordinate array exceeds 1 MiB (cache written in several write() calls): a few offsets only
        big = worlds.gen_dataset_params(rng, fmt='lammps', big=True)
        big['nf'], big['na'], big['species'] = 6000, 8, (big['species'] * 8)[:8]
        bsize = cache_size_of(big, 0, os.path.join(plandir, 'big'))
        info['large_world'] = {'dataset': big, 'cache_bytes': bsize, 'stride': max(1, bsize // 7), 'exhaustive': False}
        jobs += enum_scenarios(big, 0, bsize, 'E1', chunk=2, stride=max(1, bsize // 7))
        jobs += enum_scenarios(big, 0, bsize, 'E2', chunk=2, stride=max(1, bsize // 4))
    if tier == 'thorough':
        # (a) real process death on a sample of offsets of the first world per format
        n_rd = 0
        for w in info['worlds'][::3]:
            size = w['cache_bytes']
            ks = sorted({0, 1, 2, size // 3, size // 2, size - 2, size - 1, size} | {rng.randrange(size + 1) for _ in range(24)})
            for k in ks:
                jobs.append({'format': 1, 'property': PROP, 'run_seed': None, 'stream': 'real-death', 'config': {'enum': 'RD'},
                             'world': {'datasets': [w['dataset']]}, 'rd': {'args': 0, 'k': int(k)}, 'ops': [{'op': 'REAL_DEATH', 'k': int(k)}]})
                n_rd += 1
        info['real_process_death_scenarios'] = n_rd
        # (b) one large world whose cache is written in several write() calls: crash offsets on a stride
        big = worlds.gen_dataset_params(rng, fmt='lammps', big=True)
        bsize = cache_size_of(big, 0, os.path.join(plandir, 'big'))
        stride = max(1, bsize // 160)
        info['large_world'] = {'dataset': big, 'cache_bytes': bsize, 'stride': stride, 'exhaustive': False}
        jobs += enum_scenarios(big, 0, bsize, 'E2', chunk=4, stride=stride)
        jobs += enum_scenarios(big, 0, bsize, 'E1', chunk=4, stride=stride)
    info['modes'] = sorted({m for _, ms, _ in plan for m in ms})
    info['scenarios'] = len(jobs)
    info['offsets_total'] = sum(w['offsets'] * len(w['modes']) for w in info['worlds'] + info['sampled_worlds'])
    return jobs, info
