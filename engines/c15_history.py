"""C15 - select/slice/split/extend and read-only queries never alter the data.

Simulated system: real gemdat.Trajectory objects (and everything they call) shared
by 1-3 logical clients; the scheduler picks which client issues which API call on
which pooled object.  The hidden state is the in-place position/displacement
representation flag that "read-only" calls flip.

Oracles (DESIGN.md §3): (1) data integrity against a trivial numpy reference model,
(2) history independence against a pristine twin built from the model record,
(3) non-interference between pool entries.  Fault-free configuration only.
"""

from __future__ import annotations

import copy
import sys
import warnings

import numpy as np

from sim import worlds
from sim.core import HarnessError, SimRandom, Stats, Trace, Violation, array_fp, canon

PROP = 'C15'
TOL = 1e-9


def setup():
    warnings.filterwarnings('ignore')
    np.seterr(all='ignore')
    import MDAnalysis.lib.pkdtree  # noqa: F401
    import scipy.signal  # noqa: F401

    import gemdat  # noqa: F401
    import gemdat.metrics  # noqa: F401
    import gemdat.rdf  # noqa: F401
    import gemdat.transitions  # noqa: F401
    import gemdat.volume  # noqa: F401
    import gemdat.shape  # noqa: F401
    import gemdat.orientations  # noqa: F401
    import gemdat.plots.plotly  # noqa: F401
    import plotly.graph_objects  # noqa: F401

    sys.unraisablehook = lambda *a, **k: None
    # rich progress bars off (rdf.radial_distribution uses track()); never touches data
    import os

    os.environ.setdefault('TERM', 'dumb')


# ---------------------------------------------------------------------------
# world


def gen_world(rng: SimRandom) -> dict:
    na = rng.randint(1, 6)
    nf = rng.randint(2, 24)
    huge = False
    if rng.chance(0.06):  # swarm: an occasional much larger system (size thresholds, buffer/stride effects)
        na = rng.randint(7, 40)
        nf = rng.randint(25, 300)
    elif rng.chance(0.015):  # ... and rarely a really big one (> 2**18 coordinate values); expensive queries are skipped on it
        na = rng.randint(50, 80)
        nf = rng.randint(1200, 2500)
        huge = True
    grid = rng.pick([7, 9, 11]) if rng.chance(0.3) else None
    kinds = rng.sample(worlds.SPECIES_POOL, rng.randint(1, min(3, na)))
    if rng.chance(0.3) and na >= 2:
        kinds = list(dict.fromkeys(['S', 'Si'] + kinds))[: max(2, min(3, na))]
    species = [rng.pick(kinds) for _ in range(na)]
    for i, k in enumerate(kinds):
        if k not in species:
            species[i % na] = k
    n_sites = rng.randint(2, 5)
    return {
        'lattice': worlds.gen_lattice_params(rng),
        'na': na,
        'nf': nf,
        'grid': grid,
        'species': species,
        'species_as': rng.pick(['element', 'species', 'species_ox']),
        'coord_seed': rng.getrandbits(32),
        'time_step': rng.pick([1e-15, 2e-15, 5e-16]),
        'temperature': rng.pick([300, 650.5, 1000]),
        'n_sites': n_sites,
        'site_seed': rng.getrandbits(32),
        'step_bound': rng.pick([0.22, 0.22, 0.22, 0.45]),
        'huge': huge,
        'site_props': rng.chance(0.3),
        'array_metadata': rng.chance(0.25),
        'empty_metadata': rng.chance(0.15),
    }


ROOT_MODES = ['wrapped', 'unwrapped', 'shifted', 'disp']
EXPENSIVE = {'rdf', 'plot', 'shape', 'orientations', 'iterate', 'repr'}


def systems_of(world: dict):
    """(systems, roots) of a scenario world; accepts the older single-system format."""
    if 'systems' in world:
        return world['systems'], [tuple(r) for r in world['roots']]
    return [world], [(0, m) for m in world['roots']]


def world_arrays(w: dict):
    g = np.random.default_rng(w['coord_seed'])
    na, nf = w['na'], w['nf']
    if w['grid']:
        n = w['grid']
        base = g.integers(0, n, (1, na, 3)) / n
        if w.get('step_bound', 0.45) > 0.3:
            kmax = 3 if n == 7 else 4
        else:
            kmax = 1 if n == 7 else 2
        steps = g.integers(-kmax, kmax + 1, (nf, na, 3)) / n
        # many exact zeros / repeats
        steps = np.where(g.random((nf, na, 3)) < 0.4, 0.0, steps)
    else:
        base = g.random((1, na, 3))
        b = w.get('step_bound', 0.45)
        steps = g.uniform(-b, b, (nf, na, 3))
        small = g.random((nf, na, 1)) < 0.6
        steps = np.where(small, steps * 0.1, steps)
    steps[0] = 0
    unwrapped = base + np.cumsum(steps, axis=0)
    return base[0], steps, unwrapped


def make_species(w: dict):
    from pymatgen.core import Element, Species

    if w['species_as'] == 'species':
        return [Species(s) for s in w['species']]
    if w['species_as'] == 'species_ox':
        ox = {'Li': 1, 'Na': 1, 'S': -2, 'Si': 4, 'P': 5, 'O': -2}
        return [Species(s, ox[s]) for s in w['species']]
    return [Element(s) for s in w['species']]


def build_root(w: dict, mode: str, idx: int):
    from pymatgen.core import Lattice

    from gemdat import Trajectory

    base, steps, unwrapped = world_arrays(w)
    L = Lattice(worlds.lattice_matrix(w['lattice']))
    md = {'temperature': w['temperature'], 'tag': f'root{idx}'}
    if idx % 2:
        md[f'extra{idx % 7}'] = idx  # roots of one system do not all have the same metadata keys
    if w.get('array_metadata'):
        # array-valued annotations whose lengths happen to coincide with the number of frames / atoms / 3
        md['series'] = np.arange(w['nf'], dtype=float) * 0.5
        md['aux'] = {'per_atom': np.arange(w['na']), 'matrix': np.arange(9.0).reshape(3, 3), 'voigt': np.arange(6.0)}
    if w.get('empty_metadata'):
        md = {}  # (a trajectory created without metadata)
    kw = dict(species=make_species(w), lattice=L, time_step=w['time_step'], metadata=(md if md or idx % 2 else None))
    sp_model = None
    if w.get('site_props'):
        sp_model = {'tag': [f'a{i}' for i in range(w['na'])], 'weight': [0.5 + i for i in range(w['na'])]}
        kw['site_properties'] = {k: list(v) for k, v in sp_model.items()}
    if mode == 'wrapped':
        T = Trajectory(coords=np.mod(unwrapped, 1.0), **kw)
    elif mode == 'unwrapped':
        T = Trajectory(coords=unwrapped.copy(), **kw)
    elif mode == 'shifted':
        g = np.random.default_rng(w['coord_seed'] + 17 + idx)
        T = Trajectory(coords=np.mod(unwrapped, 1.0) + g.integers(-2, 3, unwrapped.shape), **kw)
    elif mode == 'disp':
        T = Trajectory(coords=steps.copy(), coords_are_displacement=True, base_positions=base.copy(), **kw)
    elif mode == 'disp_nobase':  # legal (pymatgen only warns): displacements without base positions; positions are undefined
        T = Trajectory(coords=steps.copy(), coords_are_displacement=True, **kw)
    else:
        raise HarnessError(mode)
    if mode == 'disp_nobase':
        return T, {'S': steps.copy(), 'P': np.mod(unwrapped, 1.0), 'species': [str(s) for s in kw['species']], 'symbols': list(w['species']),
                   'lattice': np.array(L.matrix), 'time_step': w['time_step'], 'metadata': md_copy(md), 'idx': idx, 'site_props': sp_model}
    model = {
        'B': np.array(T.base_positions, dtype=float, copy=True),
        'P': np.mod(unwrapped, 1.0),
        'species': [str(s) for s in kw['species']],
        'symbols': list(w['species']),
        'lattice': np.array(L.matrix),
        'time_step': w['time_step'],
        'metadata': md_copy(md),
        'site_props': sp_model,  # constant per-atom properties (dict of lists), None, or 'any' (not pinned down for this object)
    }
    return T, model


def build_sites(w: dict):
    from pymatgen.core import Lattice, Structure

    g = np.random.default_rng(w['site_seed'])
    L = Lattice(worlds.lattice_matrix(w['lattice']))
    if w['grid']:
        fr = g.integers(0, w['grid'], (w['n_sites'], 3)) / w['grid']
    else:
        fr = g.random((w['n_sites'], 3))
    # drop duplicates
    _, ui = np.unique(np.round(fr, 6), axis=0, return_index=True)
    fr = fr[np.sort(ui)]
    return Structure(L, [w['species'][0]] * len(fr), fr, labels=[f'{w["species"][0]}{i % 2}' for i in range(len(fr))])


def twin_of(model: dict, w: dict):
    """A pristine trajectory built from the model record: fresh object, position mode, never touched."""
    from pymatgen.core import Element, Lattice, Species

    from gemdat import Trajectory

    sp = []
    for s, sym in zip(model['species'], model['symbols']):
        if sym == 'X':
            sp.append('X')
        elif w['species_as'] == 'species':
            sp.append(Species(sym))
        elif w['species_as'] == 'species_ox':
            sp.append(Species(sym, {'Li': 1, 'Na': 1, 'S': -2, 'Si': 4, 'P': 5, 'O': -2}[sym]))
        else:
            sp.append(Element(sym))
    P = model['P']
    # same periodic image of the base as the object (matters for centre-of-mass style queries only):
    # exactly wrapped model positions plus an integer image offset per atom
    K = np.round(np.asarray(model['B'], dtype=float) - P[0])
    coords = P + K[None, :, :]
    extra = {}
    if isinstance(model.get('site_props'), dict):
        extra['site_properties'] = {k: list(v) for k, v in model['site_props'].items()}
    return Trajectory(species=sp, coords=coords, lattice=Lattice(model['lattice']), time_step=model['time_step'],
                      metadata=md_copy(model['metadata']), **extra)


def ambiguous_steps(model: dict) -> bool:
    """True if some frame-to-frame step of the model data is (numerically) half a cell: its minimum image is undefined."""
    P = model['P']
    if len(P) < 2:
        return False
    d = np.abs(np.diff(P, axis=0))
    d = np.minimum(d, 1 - d)
    return bool(np.any(d > 0.5 - 1e-6))


# ---------------------------------------------------------------------------
# non-mutating observation of a trajectory


def md_equal(a, b) -> bool:
    """Equality of metadata values (numbers, strings, numpy arrays, nested dicts / lists)."""
    if isinstance(a, np.ndarray) or isinstance(b, np.ndarray):
        return isinstance(a, np.ndarray) and isinstance(b, np.ndarray) and a.shape == b.shape and bool(np.array_equal(a, b))
    if isinstance(a, dict) or isinstance(b, dict):
        return isinstance(a, dict) and isinstance(b, dict) and a.keys() == b.keys() and all(md_equal(a[k], b[k]) for k in a)
    if isinstance(a, (list, tuple)) or isinstance(b, (list, tuple)):
        return type(a) is type(b) and len(a) == len(b) and all(md_equal(x, y) for x, y in zip(a, b))
    return a == b


def md_copy(a):
    if isinstance(a, np.ndarray):
        return a.copy()
    if isinstance(a, dict):
        return {k: md_copy(v) for k, v in a.items()}
    if isinstance(a, (list, tuple)):
        return type(a)(md_copy(v) for v in a)
    return a


def raw_positions(T) -> np.ndarray:
    c = np.asarray(T.coords, dtype=float)
    if T.coords_are_displacement:
        c = np.asarray(T.base_positions, dtype=float) + np.cumsum(c, axis=0)
    return np.mod(c, 1.0)


def circ_max(a, b) -> float:
    d = np.abs(np.mod(a, 1.0) - np.mod(b, 1.0))
    d = np.minimum(d, 1.0 - d)
    return float(d.max()) if d.size else 0.0


# ---------------------------------------------------------------------------
# generation

PERTURB = ('to_positions', 'to_displacements', 'read_positions', 'read_displacements')
EXTRA_QUERIES = ('shape', 'orientations', 'plot', 'repr', 'iter_partial')  # judged by outcome kind + data integrity afterwards (+ values for shape/orientations)
PLOTS = ('plot_displacement_per_atom', 'plot_displacement_per_element', 'plot_msd_per_element', 'plot_displacement_histogram',
         'plot_frequency_vs_occurence', 'plot_vibrational_amplitudes')
QUERIES = (
    'cumulative_displacements', 'distances_from_base_position', 'mean_squared_displacement', 'drift', 'drift_fixed', 'get_lattice',
    'total_time', 'speed', 'tracer_diffusivity', 'vibration_amplitude', 'attempt_frequency', 'particle_density', 'haven_ratio',
    'to_volume', 'transitions', 'rdf', 'get_structure', 'len_species', 'center_of_mass_q', 'iterate', 'drift_floating',
) + EXTRA_QUERIES
# the discontinuous analyses (site assignment, voxel binning) are the ones most sensitive to hidden-state noise
QUERY_WEIGHTS = {q: (4 if q == 'transitions' else 2 if q in ('to_volume', 'rdf') else 1) for q in QUERIES}
DISPLACEMENT_BASED = {
    'cumulative_displacements', 'distances_from_base_position', 'mean_squared_displacement', 'drift', 'drift_fixed', 'speed', 'tracer_diffusivity',
    'vibration_amplitude', 'attempt_frequency', 'haven_ratio', 'center_of_mass_q', 'drift_floating',
}
DERIVE = ('filter', 'slice', 'listidx', 'arrayidx', 'intidx', 'split', 'drift_correct', 'center_of_mass', 'hold_transitions')


def generate(run_seed: int, tier: str = 'quick', stream: str = 'seq') -> dict:
    rng = SimRandom(run_seed)
    n_sys = rng.weighted({1: 4, 2: 4, 3: 2})
    systems = [gen_world(rng) for _ in range(n_sys)]
    roots = []
    for si in range(n_sys):
        for _ in range(rng.randint(1, 2)):
            roots.append([si, 'disp_nobase' if rng.chance(0.06) else rng.pick(ROOT_MODES)])
    n_clients = rng.randint(1, 3)
    wt = {
        'PERTURB': rng.uniform(1, 5), 'QUERY': rng.uniform(2, 6), 'DERIVE': rng.uniform(1, 4), 'EXTEND': rng.uniform(0, 1.5),
        'SPAWN': rng.uniform(0, 0.8) if n_sys > 1 else rng.uniform(0, 0.2), 'DROP': rng.uniform(0, 1.5),
        'SET_META': rng.pick([0, 0, 0.3, 0.8]),
    }
    disabled_q = {q for q in QUERIES if rng.chance(0.15)}
    n_ops = rng.randint(20, 120 if tier == 'quick' else 250)
    nf = max(w['nf'] for w in systems)
    names = [f'r{i}' for i in range(len(roots))]
    ops = []
    counter = 0

    def ref():
        return rng.pick(names[-8:] if rng.chance(0.6) else names)

    def rint(lo, hi):
        return rng.randint(lo, hi)

    while len(ops) < n_ops:
        kind = rng.weighted(wt)
        client = rng.randrange(n_clients)
        if kind == 'PERTURB':
            ops.append({'op': 'PERTURB', 'obj': ref(), 'how': rng.pick(PERTURB), 'client': client})
        elif kind == 'QUERY':
            q = rng.weighted(QUERY_WEIGHTS)
            if q in disabled_q:
                continue
            op = {'op': 'QUERY', 'obj': ref(), 'q': q, 'client': client}
            if rng.chance(0.4):
                op['pos'] = True  # positional spelling of the arguments where the signature allows it
            if q == 'to_volume':
                op['res'] = rng.pick([0.2, 0.31, 0.5, 1.0, 0.7])
            elif q == 'transitions':
                op['radius'] = rng.pick([0.5, 0.8, 1.2])
                op['inner'] = rng.pick([1.0, 1.0, 0.5])
            elif q == 'rdf':
                op['s1'] = rng.randrange(3)
                op['s2'] = rng.randrange(3)
                op['res'] = rng.pick([0.137, 0.25])
            elif q in ('get_structure',):
                op['i'] = rint(-nf, nf - 1) if rng.chance(0.65) else rng.pick([0, 0, -1])
            elif q in ('tracer_diffusivity', 'haven_ratio'):
                op['dim'] = rng.pick([1, 2, 3])
            elif q in ('drift_fixed', 'drift_floating'):
                op['s'] = rng.randrange(3)
            elif q == 'shape':
                op['supercell'] = rng.pick([None, [2, 1, 1], [1, 2, 2], [1, 1, 1]])
                op['radius'] = rng.pick([0.6, 1.0])
            elif q == 'orientations':
                op['s1'] = rng.randrange(3)
                op['s2'] = rng.randrange(3)
            elif q == 'plot':
                op['which'] = rng.randrange(len(PLOTS))
            ops.append(op)
        elif kind == 'DERIVE':
            d = rng.pick(DERIVE)
            counter += 1
            op = {'op': 'DERIVE', 'obj': ref(), 'how': d, 'name': f'd{counter}', 'client': client}
            spell = rng.pick(['', '', 'pos', 'kw'])
            if spell:
                op[spell] = True
            if d == 'filter':
                op['sel'] = rng.pick(['str', 'list', 'tuple', 'set'])
                op['which'] = [rng.randrange(3) for _ in range(rng.randint(1, 2))]
            elif d == 'slice':
                def part():
                    return None if rng.chance(0.3) else rint(-nf - 2, nf + 2)
                st = rng.pick([None, None, 1, 2, 3, -1, -2])
                op['slice'] = [part(), part(), st]
            elif d in ('listidx', 'arrayidx'):
                if rng.chance(0.4):  # evenly spaced, ascending or descending, possibly running into frame 0
                    a, st = rint(0, nf - 1), rng.pick([1, 2, 3, 5, -1, -2, -3, -5])
                    b = rng.pick([-1, nf]) if rng.chance(0.5) else rint(-1, nf)
                    op['idx'] = list(range(a, b, st))[:12] or [a]
                else:
                    op['idx'] = [rint(-nf, nf - 1) for _ in range(rng.randint(1, 5))]
            elif d == 'intidx':
                op['i'] = rint(-nf, nf - 1)
            elif d == 'split':
                op['n'] = rint(1, max(1, min(6, nf - 1)))
                op['equal'] = rng.chance(0.5)
                for k in range(op['n']):
                    names.append(f"{op['name']}.{k}")
            elif d == 'drift_correct':
                op['mode'] = rng.pick(['all', 'fixed'])
                op['s'] = rng.randrange(3)
            elif d == 'hold_transitions':
                op['radius'] = rng.pick([0.5, 0.8, 1.2])
            if d not in ('split', 'intidx'):
                names.append(op['name'])
            ops.append(op)
        elif kind == 'EXTEND':
            ops.append({'op': 'EXTEND', 'obj': ref(), 'other': ref(), 'client': client})
        elif kind == 'SPAWN':
            counter += 1
            op = {'op': 'SPAWN', 'sys': rng.randrange(n_sys), 'mode': 'disp_nobase' if rng.chance(0.06) else rng.pick(ROOT_MODES), 'name': f's{counter}', 'client': client}
            names.append(op['name'])
            ops.append(op)
        elif kind == 'SET_META':
            ops.append({'op': 'SET_META', 'obj': ref(), 'k': rng.randrange(3), 'v': rng.randrange(100), 'client': client})
        elif kind == 'DROP':
            ops.append({'op': 'DROP', 'obj': ref(), 'held': rng.chance(0.3), 'gc': rng.chance(0.3), 'client': client})
    return {
        'format': 1, 'property': PROP, 'run_seed': run_seed, 'stream': stream,
        'config': {'n_clients': n_clients, 'fault_free': True, 'disabled_queries': sorted(disabled_q)},
        'world': {'systems': systems, 'roots': roots}, 'ops': ops,
    }


# ---------------------------------------------------------------------------
# execution


class Entry:
    __slots__ = ('name', 'T', 'M', 'depth', 'origin', 'kind', 'amb', 'dc', 'sys', 'family', 'loose_keys')

    def __init__(self, name, T, M, depth, origin, kind='traj', dc=0, sys=0):
        self.name, self.T, self.M, self.depth, self.origin, self.kind = name, T, M, depth, origin, kind
        self.dc = dc
        self.sys = sys
        self.family = name  # root of the derivation tree this object belongs to (set by add_entry for derived objects)
        self.loose_keys = set()  # metadata keys a *user* wrote on a relative: may or may not be visible here (shared or copied dict)
        if kind == 'nobase':
            self.amb = False
            return
        # displacement semantics undefined: a stored or implied step of half a cell or more
        self.amb = ambiguous_steps(M) or bool(T.coords_are_displacement and np.any(np.abs(np.asarray(T.coords)) > 0.5 - 1e-6))


class Run:
    def __init__(self, scenario, keep_events=False):
        self.sc = scenario
        self.systems, self.roots = systems_of(scenario['world'])
        self.cur = 0  # system of the object the current op works on
        self._sites: dict = {}
        self._shape: dict = {}
        self.trace = Trace(keep=keep_events)
        self.stats = Stats()
        self.step = -1
        self.pool: dict = {}
        self.held: list = []  # Transitions objects kept by clients
        self.held_iters: list = []  # suspended frame iterators kept by clients
        self.oracle_checks = 0
        self.last3: list = []

    @property
    def w(self) -> dict:
        return self.systems[self.cur]

    @property
    def sites(self):
        st = self._sites.get(self.cur)
        if st is None:
            st = self._sites[self.cur] = build_sites(self.w)
        return st

    def shape_analyzer(self):
        if self.cur not in self._shape:
            from gemdat.shape import ShapeAnalyzer

            try:
                self._shape[self.cur] = ShapeAnalyzer.from_structure(self.sites)
            except Exception:  # noqa: BLE001
                self._shape[self.cur] = None
        return self._shape[self.cur]

    def violation(self, cls, detail, signature=None):
        raise Violation(f'{PROP}/{cls}', detail, signature or {}, self.step)

    # -- oracle 1: data integrity vs. model -------------------------------------------
    def check_entry(self, e: Entry, why: str):
        T, M = e.T, e.M
        self.oracle_checks += 1
        sig = {'origin': e.origin}
        if [str(s) for s in T.species] != M['species']:
            self.violation('species_changed', f'{e.name} ({why}): species {[str(s) for s in T.species]} != model {M["species"]}', sig)
        if len(T) != len(M['P']):
            self.violation('frames_changed', f'{e.name} ({why}): {len(T)} frames, model has {len(M["P"])}', sig)
        lat = np.asarray(T.lattice, dtype=float)
        if lat.shape != (3, 3) or not np.allclose(lat, M['lattice'], rtol=0, atol=1e-12):
            self.violation('lattice_changed', f'{e.name} ({why}): lattice differs from model', sig)
        if T.time_step != M['time_step']:
            self.violation('time_step_changed', f'{e.name} ({why}): time_step {T.time_step} != {M["time_step"]}', sig)
        have = {k: v for k, v in dict(T.metadata).items() if k not in e.loose_keys}
        want = {k: v for k, v in M['metadata'].items() if k not in e.loose_keys}
        if not md_equal(have, want):
            self.violation('metadata_changed', f'{e.name} ({why}): metadata {T.metadata} != {M["metadata"]}', sig)
        want = M.get('site_props')
        if want != 'any':
            have = T.site_properties
            if isinstance(have, (list, tuple)) and len(have) and all(h == have[0] for h in have):
                have = have[0]  # per-frame list of one and the same dict
            ok = (have is None and want is None) or (isinstance(have, dict) and isinstance(want, dict)
                                                     and {k: list(v) for k, v in have.items()} == {k: list(v) for k, v in want.items()})
            if not ok:
                self.violation('site_properties_changed', f'{e.name} ({why}): per-atom site properties {have} != {want}', sig)
        pos = raw_positions(T)
        if pos.shape != M['P'].shape:
            self.violation('positions_changed', f'{e.name} ({why}): positions shape {pos.shape} != {M["P"].shape}', sig)
        d = circ_max(pos, M['P'])
        if not d <= TOL:
            self.violation('positions_changed', f'{e.name} ({why}): positions differ from the model by {d:.3g} (mod 1), representation '
                           f'{"displacement" if T.coords_are_displacement else "position"}', sig)

    # -- displacement data without base positions: only what is defined for them is checked ---------------
    def check_nobase(self, e: Entry, why: str):
        T, M = e.T, e.M
        self.oracle_checks += 1
        sig = {'origin': e.origin}
        ok = (T.coords_are_displacement is True and T.base_positions is None and np.shape(T.coords) == M['S'].shape
              and np.allclose(np.asarray(T.coords, dtype=float), M['S'], rtol=0, atol=1e-12))
        if not ok:
            self.violation('positions_changed', f'{e.name} ({why}): a displacement-only trajectory (no base positions) no longer holds its displacements '
                           f'(flag {T.coords_are_displacement}, base {"set" if T.base_positions is not None else "None"})', sig)
        if [str(s) for s in T.species] != M['species'] or not md_equal(dict(T.metadata), M['metadata']) or T.time_step != M['time_step']:
            self.violation('metadata_changed', f'{e.name} ({why}): species/metadata/time step of a displacement-only trajectory changed', sig)

    def nobase_twin(self, e: Entry):
        T, _ = build_root(self.systems[e.sys], 'disp_nobase', e.M['idx'])
        return T

    def op_on_nobase(self, op, e: Entry):
        """Any call on a displacement-only trajectory: same outcome (value or exception type) as on a fresh copy, and the data stay."""
        self.cur = e.sys
        twin = self.nobase_twin(e)

        def act(T):
            kind = op['op']
            if kind == 'PERTURB':
                how = op['how']
                if how == 'to_positions':
                    T.to_positions()
                elif how == 'to_displacements':
                    T.to_displacements()
                elif how == 'read_positions':
                    return np.asarray(T.positions)
                else:
                    return np.asarray(T.displacements)
                return None
            if kind == 'QUERY':
                if op['q'] in EXPENSIVE or op['q'] in ('transitions', 'to_volume', 'get_structure'):
                    T.positions  # they all start by asking for positions
                    return None
                return self.run_query(T, op, e.M)
            if kind == 'DERIVE':
                how = op['how']
                if how == 'filter':
                    return raw_positions(T.filter(self.sym(op['which'][0])))
                if how == 'slice':
                    a, b, c = op['slice']
                    return raw_positions(T[slice(a, b, c)])
                if how == 'split':
                    return len(T.split(op['n']))
                T.positions
            return None

        outs = []
        for T in (twin, e.T):
            try:
                v = act(T)
                outs.append(('ok', v))
            except Exception as ex:  # noqa: BLE001
                outs.append(('exc', type(ex).__name__))
        self.oracle_checks += 1
        self.stats.probe('nobase_calls')
        what = op.get('how') or op.get('q')
        self.trace.log(ev='NOBASE', step=self.step, name=e.name, call=what, twin=outs[0][0] if outs[0][0] == 'ok' else outs[0][1],
                       got=outs[1][0] if outs[1][0] == 'ok' else outs[1][1])
        (tk, tv), (gk, gv) = outs
        if tk != gk or (tk == 'exc' and tv != gv):
            self.violation('query_outcome_depends_on_history', f'{what} on the displacement-only trajectory {e.name}: {gk} {gv if gk == "exc" else ""}; '
                           f'on a fresh copy: {tk} {tv if tk == "exc" else ""}', {'q': str(what)})
        if tk == 'ok' and tv is not None and gv is not None:
            a, b = np.asarray(tv, dtype=float), np.asarray(gv, dtype=float)
            if a.shape != b.shape or not np.allclose(a, b, rtol=1e-7, atol=1e-9 * (1 + float(np.abs(a).max()) if a.size else 1), equal_nan=True):
                self.violation('query_result_depends_on_history', f'{what} on the displacement-only trajectory {e.name} differs from the same call on a fresh copy', {'q': str(what)})
        self.check_nobase(e, f'after {what}')

    def check_all(self, why: str):
        for e in self.pool.values():
            if e.kind == 'traj':
                self.check_entry(e, why)
            elif e.kind == 'nobase':
                self.check_nobase(e, why)
        for h in self.held:
            self.check_held(h, why)

    def check_held(self, h, why):
        tr = h['tr']
        self.oracle_checks += 1
        if array_fp(tr.states) != h['states'] or array_fp(tr.events.to_numpy()) != h['events']:
            self.violation('held_analysis_changed', f"Transitions held since step {h['step']} changed its states/events ({why})", {})

    # -- public api positions check (goes through the object: is itself a history step) ----
    def api_positions_check(self, e: Entry):
        self.oracle_checks += 1
        before = bool(e.T.coords_are_displacement)
        pos = e.T.positions
        self.trace.log(ev='obs_positions', step=self.step, name=e.name, fp=array_fp(np.mod(pos, 1.0), 7))
        self.stats.state(e.origin, 'disp' if before else 'pos', 'positions', 'pos', min(e.depth, 3))
        if pos.shape != e.M['P'].shape or not circ_max(pos, e.M['P']) <= TOL:
            self.violation('positions_changed', f'{e.name}: .positions differs from the model (was in {"displacement" if before else "position"} mode)', {'origin': e.origin})
        # (whether .positions is wrapped into [0,1) is C01's business; C15 compares modulo 1 only)

    # -- ops ---------------------------------------------------------------------------------
    def op_perturb(self, op):
        e = self.pool.get(op['obj'])
        if e is not None and e.kind == 'nobase':
            return self.op_on_nobase(op, e)
        if e is None or e.kind != 'traj':
            return self.trace.log(ev='PERTURB', step=self.step, skipped=True)
        self.cur = e.sys
        T = e.T
        before = bool(T.coords_are_displacement)
        how = op['how']
        if how == 'to_positions':
            T.to_positions()
        elif how == 'to_displacements':
            T.to_displacements()
        elif how == 'read_positions':
            T.positions
        else:
            T.displacements
        self.stats.fault('mode_flip')
        self.stats.state(e.origin, 'disp' if before else 'pos', how, 'disp' if T.coords_are_displacement else 'pos', min(e.depth, 3))
        self.trace.log(ev='PERTURB', step=self.step, name=e.name, how=how, client=op.get('client'))
        self.check_entry(e, f'after {how}')

    def sym(self, i):
        kinds = list(dict.fromkeys(self.w['species']))
        return kinds[i % len(kinds)]

    def model_derive(self, e: Entry, op):
        """Reference-model result of a derivation: (model record | list of records | None if precondition false)."""
        M = e.M
        how = op['how']
        if how == 'filter':
            syms = [self.sym(i) for i in op['which']]
            mask = [s in syms for s in M['symbols']]
            if not any(mask):
                return None, None
            sel = {'str': syms[0], 'list': list(syms), 'tuple': tuple(syms), 'set': set(syms)}[op['sel']]
            if op['sel'] == 'str':
                mask = [s == syms[0] for s in M['symbols']]
            m2 = dict(M, P=M['P'][:, mask], species=[s for s, k in zip(M['species'], mask) if k], symbols=[s for s, k in zip(M['symbols'], mask) if k],
                      site_props='any')  # whether a selection carries (selected) site properties along is not pinned down
            return m2, sel
        if how == 'slice':
            a, b, c = op['slice']
            sl = slice(a, b, c)
            P = M['P'][sl]
            if len(P) == 0:
                return None, None
            return dict(M, P=P), sl
        if how in ('listidx', 'arrayidx'):
            n = len(M['P'])
            idx = [i for i in op['idx'] if -n <= i < n]
            if not idx:
                return None, None
            return dict(M, P=M['P'][idx]), (idx if how == 'listidx' else np.array(idx))
        return None, None

    def add_entry(self, name, T, M, parent: Entry, origin):
        M = dict(M, P=np.array(M['P'], copy=True), metadata=md_copy(M['metadata']))
        B = np.array(T.base_positions, dtype=float, copy=True)
        if 'B_expected' in M:
            if B.shape != M['B_expected'].shape or not np.allclose(B, M['B_expected'], rtol=0, atol=1e-9):
                self.violation('base_image_changed', f'{name} (by {origin}): base positions differ from those of the same call on a pristine copy', {'how': origin})
            M.pop('B_expected')
        M['B'] = B
        e = Entry(name, T, M, parent.depth + 1, origin, dc=parent.dc + (1 if origin == 'drift_correct' else 0), sys=parent.sys)
        e.family = parent.family
        e.loose_keys = set(parent.loose_keys)
        self.pool[name] = e
        self.check_entry(e, f'at creation by {origin}')
        return e

    def op_derive(self, op):
        e = self.pool.get(op['obj'])
        how = op['how']
        if e is not None and e.kind == 'nobase':
            return self.op_on_nobase(op, e)
        if e is None or e.kind != 'traj':
            return self.trace.log(ev='DERIVE', step=self.step, how=how, skipped='no object')
        self.cur = e.sys
        T = e.T
        before = bool(T.coords_are_displacement)
        has_real_species = 'X' not in e.M['symbols']
        name = op['name']
        logged = {'ev': 'DERIVE', 'step': self.step, 'how': how, 'src': e.name, 'name': name, 'client': op.get('client')}
        if how in ('filter', 'slice', 'listidx', 'arrayidx'):
            if how == 'filter' and not has_real_species:
                return self.trace.log(**logged, skipped='dummy species')
            M2, arg = self.model_derive(e, op)
            if M2 is None:
                return self.trace.log(**logged, skipped='empty')
            try:
                new = (T.filter(species=arg) if op.get('kw') else T.filter(arg)) if how == 'filter' else T[arg]
            except Exception as ex:  # noqa: BLE001
                self.violation('derive_raised', f'{how}({arg!r}) on {e.name} raised {type(ex).__name__}: {ex}', {'how': how})
            self.add_entry(name, new, M2, e, how)
            if how != 'filter' and not md_equal({k: v for k, v in dict(new.metadata).items() if k not in e.loose_keys}, {k: v for k, v in e.M['metadata'].items() if k not in e.loose_keys}):
                self.violation('metadata_changed', f'{how} dropped or changed metadata', {'how': how})
        elif how == 'intidx':
            n = len(e.M['P'])
            i = op['i']
            if not -n <= i < n:
                return self.trace.log(**logged, skipped='range')
            try:
                st = T[i]
            except Exception as ex:  # noqa: BLE001
                self.violation('derive_raised', f'T[{i}] on {e.name} raised {type(ex).__name__}: {ex}', {'how': how})
            self.oracle_checks += 1
            if (has_real_species and [str(s) for s in st.species] != e.M['species']) or circ_max(st.frac_coords, e.M['P'][i]) > TOL:
                self.violation('structure_mismatch', f'T[{i}] of {e.name} is not frame {i} of the model', {'how': how})
            if not np.allclose(st.lattice.matrix, e.M['lattice'], atol=1e-12):
                self.violation('lattice_changed', f'T[{i}] of {e.name} has a different lattice', {'how': how})
        elif how == 'split':
            n = op['n']
            if not 1 <= n <= len(e.M['P']) - 1:
                return self.trace.log(**logged, skipped='n')
            try:
                parts = T.split(n, op['equal']) if op.get('pos') else T.split(n_parts=n, equal_parts=op['equal']) if op.get('kw') else T.split(n, equal_parts=op['equal'])
            except Exception as ex:  # noqa: BLE001
                self.violation('derive_raised', f'split({n}, equal_parts={op["equal"]}) on {e.name} raised {type(ex).__name__}: {ex}', {'how': how})
            if len(parts) != n:
                self.violation('split_wrong_count', f'split({n}) returned {len(parts)} parts', {'how': how})
            P = e.M['P']
            pos_end = 0
            lens = []
            for k, part in enumerate(parts):
                m = len(part)
                pp = raw_positions(part)
                found = None
                for s in range(pos_end, len(P) - m + 1):
                    if pp.shape == P[s : s + m].shape and circ_max(pp, P[s : s + m]) <= TOL:
                        found = s
                        break
                if found is None or m == 0:
                    self.violation('split_not_contiguous', f'part {k} of split({n}, equal_parts={op["equal"]}) of {e.name} ({m} frames) is not a contiguous, '
                                   f'chronologically ordered run of source frames (searching from frame {pos_end})', {'how': how})
                self.add_entry(f'{name}.{k}', part, dict(e.M, P=P[found : found + m]), e, 'split')
                pos_end = found + m
                lens.append(m)
            if op['equal'] and len(set(lens)) != 1:
                self.violation('split_not_equal', f'split({n}, equal_parts=True) returned parts of lengths {lens}', {'how': how})
        elif how in ('drift_correct', 'center_of_mass'):
            if not has_real_species:
                return self.trace.log(**logged, skipped='dummy species')
            if e.amb or (how == 'drift_correct' and e.dc >= 1):
                self.stats.relax('half_cell_step_skip')
                return self.trace.log(**logged, skipped='ambiguous steps')
            kw = {}
            if how == 'drift_correct' and op['mode'] == 'fixed':
                kw = {'fixed_species': self.sym(op['s'])}
                if kw['fixed_species'] not in e.M['symbols']:
                    return self.trace.log(**logged, skipped='no such species')
            twin = twin_of(e.M, self.w)
            fn = 'apply_drift_correction' if how == 'drift_correct' else 'center_of_mass'
            try:
                ref = getattr(twin, fn)(**kw)
                refP = raw_positions(ref)
                ref_exc = None
            except Exception as ex:  # noqa: BLE001
                ref_exc = type(ex).__name__
            try:
                new = getattr(T, fn)(**kw)
                exc = None
            except Exception as ex:  # noqa: BLE001
                exc = type(ex).__name__
            self.oracle_checks += 1
            if exc != ref_exc:
                self.violation('query_outcome_depends_on_history', f'{fn}({kw}) on {e.name}: raised {exc}, pristine twin raised {ref_exc}', {'q': fn})
            if exc is None:
                M2 = dict(e.M, P=refP, species=[str(s) for s in ref.species], symbols=(['X'] if how == 'center_of_mass' else e.M['symbols']),
                          B_expected=np.array(ref.base_positions, dtype=float), site_props='any')
                self.add_entry(name, new, M2, e, how)
        elif how == 'hold_transitions':
            if not has_real_species:
                return self.trace.log(**logged, skipped='dummy species')
            try:
                tr = T.transitions_between_sites(self.sites, self.sym(0), site_radius=float(op['radius']))
            except Exception:  # noqa: BLE001
                return self.trace.log(**logged, skipped='raised')
            self.held.append({'tr': tr, 'states': array_fp(tr.states), 'events': array_fp(tr.events.to_numpy()), 'step': self.step})
            # its diff_trajectory is a derived trajectory (filter done internally)
            mask = [s == self.sym(0) for s in e.M['symbols']]
            M2 = dict(e.M, P=e.M['P'][:, mask], species=[s for s, k in zip(e.M['species'], mask) if k], symbols=[s for s, k in zip(e.M['symbols'], mask) if k], site_props='any')
            self.add_entry(name, tr.diff_trajectory, M2, e, 'transitions.diff_trajectory')
            if tr.trajectory is not T:
                self.violation('held_analysis_changed', 'Transitions.trajectory is not the trajectory it was computed from', {})
        else:
            raise HarnessError(how)
        self.stats.state(e.origin, 'disp' if before else 'pos', how, 'disp' if T.coords_are_displacement else 'pos', min(e.depth, 3))
        self.trace.log(**logged)
        self.check_entry(e, f'source after {how}')

    def op_extend(self, op):
        a = self.pool.get(op['obj'])
        b = self.pool.get(op['other'])
        if a is None or b is None or a.kind != 'traj' or b.kind != 'traj' or a.sys != b.sys:
            return self.trace.log(ev='EXTEND', step=self.step, skipped=True)
        self.cur = a.sys
        if a.M['species'] != b.M['species'] or a.M['time_step'] != b.M['time_step'] or len(a.M['P']) + len(b.M['P']) > 700:
            return self.trace.log(ev='EXTEND', step=self.step, skipped='incompatible')
        pa, pb = a.T.site_properties, b.T.site_properties
        same_props = (pa is None and pb is None) or (isinstance(pa, dict) and isinstance(pb, dict) and pa == pb)
        if a.T.frame_properties is not None or not same_props:
            # (pymatgen's extend() of a trajectory without site properties by one with them yields an object that can no longer be
            # sliced - an upstream limitation, not exercised here; equal constant properties and none at all are)
            return self.trace.log(ev='EXTEND', step=self.step, skipped='props')
        ba, bb = bool(a.T.coords_are_displacement), bool(b.T.coords_are_displacement)
        try:
            a.T.extend(b.T)
        except Exception as ex:  # noqa: BLE001
            self.violation('derive_raised', f'extend raised {type(ex).__name__}: {ex}', {'how': 'extend'})
        a.M = dict(a.M, P=np.concatenate([a.M['P'], b.M['P']]))
        a.origin = 'extend'
        a.amb = a.amb or ambiguous_steps(a.M)
        self.stats.state('extend', 'disp' if ba else 'pos', 'disp' if bb else 'pos')
        self.trace.log(ev='EXTEND', step=self.step, a=a.name, b=b.name, client=op.get('client'))
        # which metadata the extended trajectory carries is not pinned down beyond "its own stay": it must keep every old key with
        # its old value (a merge into a NEW dict is tolerated and adopted by the model); everybody else must be exactly unchanged
        md = {k: v for k, v in dict(a.T.metadata).items() if k not in a.loose_keys}
        if not md_equal(md, a.M['metadata']) and all(k in md and md_equal(md[k], v) for k, v in a.M['metadata'].items()):
            shared = [x.name for x in self.pool.values() if x is not a and x.kind == 'traj' and x.T.metadata is a.T.metadata]
            if not shared:
                a.M = dict(a.M, metadata=md)
        self.check_entry(a, 'after extend')
        self.check_entry(b, 'appended trajectory after extend')

    def op_set_meta(self, op):
        """The user annotates one trajectory (a legal write to its metadata).  Relatives that share or copied the dict may or may
        not see the new key; every unrelated trajectory must not."""
        e = self.pool.get(op['obj'])
        if e is None or e.kind != 'traj':
            return self.trace.log(ev='SET_META', step=self.step, skipped=True)
        key = f"user_{op.get('k', 0) % 3}"
        e.T.metadata[key] = op.get('v', 1)
        for x in self.pool.values():
            if x.family == e.family:
                x.loose_keys.add(key)
        self.stats.probe('user_metadata_write')
        self.trace.log(ev='SET_META', step=self.step, name=e.name, key=key)
        self.check_all('after a user wrote metadata of ' + e.name)

    def op_spawn(self, op):
        si = op['sys'] % len(self.systems)
        self.cur = si
        T, M = build_root(self.systems[si], op['mode'], 100 + self.step)
        e = Entry(op['name'], T, M, 0, 'root_' + op['mode'], kind='nobase' if op['mode'] == 'disp_nobase' else 'traj', sys=si)
        self.pool[e.name] = e
        self.stats.probe('spawned')
        self.trace.log(ev='SPAWN', step=self.step, name=e.name, sys=si, mode=op['mode'], client=op.get('client'))
        (self.check_nobase if e.kind == 'nobase' else self.check_entry)(e, 'at creation')

    def op_drop(self, op):
        import gc

        if op.get('held') and self.held:
            self.held.pop(0)
        if op.get('held') and self.held_iters:
            self.held_iters.pop(0)  # the suspended generator is finalised here (or at the next collection)
        e = self.pool.get(op['obj'])
        n_traj = sum(1 for x in self.pool.values() if x.kind == 'traj')
        if e is not None and n_traj > 1:
            del self.pool[op['obj']]
            self.stats.probe('dropped')
        del e
        if op.get('gc'):
            gc.collect()
        self.trace.log(ev='DROP', step=self.step, obj=op['obj'], client=op.get('client'))

    # -- read-only queries vs. pristine twin ---------------------------------------------------
    def run_query(self, T, op, M):
        """Returns (value, aux) where value is canon-able/comparable."""
        q = op['q']
        if q == 'cumulative_displacements':
            return T.cumulative_displacements
        if q == 'distances_from_base_position':
            return T.distances_from_base_position()
        if q == 'mean_squared_displacement':
            return T.mean_squared_displacement()
        if q == 'drift':
            return T.drift()
        if q == 'drift_fixed':
            return T.drift(fixed_species=self.sym(op.get('s', 0)))
        if q == 'drift_floating':
            return T.drift(floating_species=self.sym(op.get('s', 0)))
        if q == 'get_lattice':
            return np.array(T.get_lattice().matrix)
        if q == 'total_time':
            return np.array([T.total_time, T.time_step_ps, T.sampling_frequency])
        if q == 'speed':
            return T.metrics().speed()
        if q == 'vibration_amplitude':
            atol = 1e-9 * float(np.abs(M['lattice']).sum())
        if q == 'attempt_frequency':
            atol = 1e-9 * float(np.nanmax(np.abs(ref))) if ref.size else 0.0
        if q == 'tracer_diffusivity':
            return np.array([float(T.metrics().tracer_diffusivity(dimensions=op.get('dim', 3)))])
        if q == 'vibration_amplitude':
            return np.array([float(T.metrics().vibration_amplitude())])
        if q == 'attempt_frequency':
            return np.array([float(x) for x in T.metrics().attempt_frequency()])
        if q == 'particle_density':
            return np.array([float(T.metrics().particle_density())])
        if q == 'haven_ratio':
            return np.array([float(T.metrics().haven_ratio(dimensions=op.get('dim', 3)))])
        if q == 'to_volume':
            v = T.to_volume(op.get('res', 0.5)) if op.get('pos') else T.to_volume(resolution=op.get('res', 0.5))
            return np.asarray(v.data)
        if q == 'transitions':
            if op.get('pos'):
                tr = T.transitions_between_sites(self.sites, self.sym(0), float(op.get('radius', 0.8)), op.get('inner', 1.0))
            else:
                tr = T.transitions_between_sites(sites=self.sites, floating_specie=self.sym(0), site_radius=float(op.get('radius', 0.8)), site_inner_fraction=op.get('inner', 1.0))
            return (np.asarray(tr.states), tr.events.to_numpy())
        if q == 'rdf':
            r = T.radial_distribution_between_species(specie_1=self.sym(op.get('s1', 0)), specie_2=self.sym(op.get('s2', 1)), max_dist=4.0, resolution=op.get('res', 0.137))
            return np.asarray(r.y)
        if q == 'get_structure':
            n = len(M['P'])
            i = op.get('i', 0)
            i = ((i + n) % (2 * n)) - n if n else 0
            if not -n <= i < n:
                i = 0
            s = T.get_structure(i)
            return np.asarray(s.frac_coords)
        if q == 'len_species':
            return np.array([len(T), len(T.species)])
        if q == 'center_of_mass_q':
            return raw_positions(T.center_of_mass())
        if q == 'iterate':
            return np.array([s.frac_coords for s in T])
        if q == 'shape':
            sa = self.shape_analyzer()
            if sa is None:
                raise ValueError('no shape analyzer for this system')
            sc = op.get('supercell')
            shapes = sa.analyze_trajectory(T, supercell=tuple(sc) if sc else None, radius=op.get('radius', 1.0))
            return np.array([[len(sh.coords), float(np.sum(sh.coords)), float(np.sum(np.abs(sh.coords)))] for sh in shapes], dtype=float).reshape(-1, 3)
        if q == 'orientations':
            from gemdat.orientations import Orientations

            return np.asarray(Orientations(T, self.sym(op.get('s1', 0)), self.sym(op.get('s2', 1))).vectors)
        if q == 'plot':
            fig = getattr(T, PLOTS[op.get('which', 0) % len(PLOTS)])()
            return np.array([len(fig.data)])
        if q == 'repr':
            return np.frombuffer(repr(T).encode(), dtype=np.uint8).astype(float)
        if q == 'iter_partial':
            it = iter(T)
            first = next(it)
            if T is not getattr(self, '_twin_in_use', None):
                self.held_iters.append(it)  # a client keeps the suspended iterator around
            return np.asarray(first.frac_coords)
        raise HarnessError(q)

    def tolerance(self, q, M):
        amax = float(np.abs(M['lattice']).sum())
        return {
            'cumulative_displacements': (0, 1e-9), 'distances_from_base_position': (0, 1e-9 * amax), 'mean_squared_displacement': (1e-9, 1e-8 * amax * amax),
            'drift': (0, 1e-9), 'drift_fixed': (0, 1e-9), 'drift_floating': (0, 1e-9), 'get_lattice': (0, 1e-12), 'total_time': (1e-12, 0), 'speed': (0, 1e-9 * amax),
            'particle_density': (1e-12, 0), 'get_structure': (0, 1e-9), 'len_species': (0, 0), 'repr': (0, 0), 'iter_partial': (0, 1e-9), 'center_of_mass_q': (0, 1e-9), 'iterate': (0, 1e-9), 'orientations': (1e-7, 1e-8),
        }.get(q, (1e-6, 0.0))

    def op_query(self, op):
        e = self.pool.get(op['obj'])
        if e is not None and e.kind == 'nobase':
            return self.op_on_nobase(op, e)
        if e is None or e.kind != 'traj':
            return self.trace.log(ev='QUERY', step=self.step, q=op['q'], skipped='no object')
        self.cur = e.sys
        q = op['q']
        M = e.M
        if 'X' in M['symbols'] and q in ('drift_fixed', 'drift_floating', 'transitions', 'rdf', 'haven_ratio', 'center_of_mass_q', 'shape', 'orientations', 'plot', 'repr'):
            return self.trace.log(ev='QUERY', step=self.step, q=q, skipped='dummy species')
        if q == 'haven_ratio' and not e.amb:
            try:
                dcom = float(twin_of(M, self.w).metrics().tracer_diffusivity_center_of_mass())
                dref = 1e-20 * float(np.abs(M['lattice']).sum()) ** 2 / (len(M['P']) * M['time_step'])
                degenerate = not np.isfinite(dcom) or abs(dcom) < 1e-12 * dref
            except Exception:  # noqa: BLE001
                degenerate = False
            if degenerate:
                self.stats.relax('haven_ratio_degenerate')
                return self.trace.log(ev='QUERY', step=self.step, q=q, skipped='degenerate')
        if self.w.get('huge') and q in EXPENSIVE:
            return self.trace.log(ev='QUERY', step=self.step, q=q, skipped='huge system')
        if e.amb and q in DISPLACEMENT_BASED:
            self.stats.relax('half_cell_step_skip')
            return self.trace.log(ev='QUERY', step=self.step, q=q, skipped='ambiguous steps')
        T = e.T
        before = bool(T.coords_are_displacement)
        twin = twin_of(M, self.w)
        self._twin_in_use = twin
        try:
            ref = self.run_query(twin, op, M)
            ref_exc = None
        except Exception as ex:  # noqa: BLE001
            ref, ref_exc = None, type(ex).__name__
        try:
            got = self.run_query(T, op, M)
            exc = None
        except Exception as ex:  # noqa: BLE001
            got, exc = None, type(ex).__name__
        self.oracle_checks += 1
        self.stats.probe('q_' + q)
        self.stats.state(e.origin, 'disp' if before else 'pos', q, 'disp' if T.coords_are_displacement else 'pos', min(e.depth, 3))
        self.trace.log(ev='QUERY', step=self.step, name=e.name, q=q, exc=exc, ref_exc=ref_exc, client=op.get('client'),
                       fp=canon(self.coarse(ref)) if ref_exc is None else None)
        sig = {'q': q}
        if exc != ref_exc and (q in ('plot', 'shape') or self.on_a_discontinuity(q, M, op)):
            # (plots and shape analysis are exercised for their side effects on the data only: fits and clusterings may fail on noise)
            # the analysis decides by a comparison that the data sit exactly on (tie on a k/n grid): which side an ulp of
            # representation noise falls is not a changed answer - the same narrow relaxation as for the values below
            self.stats.relax('outcome_on_a_discontinuity_' + q)
            self.check_entry(e, f'after query {q}')
            return
        if exc != ref_exc:
            self.violation(
                'query_outcome_depends_on_history',
                f'{q} on {e.name} (was in {"displacement" if before else "position"} mode, origin {e.origin}): '
                f'{"raised " + exc if exc else "returned"}; the same query on a pristine copy of the same data {"raised " + ref_exc if ref_exc else "returned"}',
                sig,
            )
        if exc is None:
            why = self.compare(q, got, ref, M, op, twin)
            if why:
                self.violation(
                    'query_result_depends_on_history',
                    f'{q} on {e.name} (was in {"displacement" if before else "position"} mode, origin {e.origin}) differs from the same query on a pristine copy: {why}',
                    sig,
                )
        self.check_entry(e, f'after query {q}')

    @staticmethod
    def coarse(v):
        if isinstance(v, tuple):
            return [Run.coarse(x) for x in v]
        a = np.asarray(v)
        if a.dtype.kind == 'f':
            return {'shape': list(a.shape), 'sum': float(np.round(np.nansum(np.where(np.isfinite(a), a, 0)), 6)) if a.size else 0.0}
        return {'shape': list(a.shape)}

    def compare(self, q, got, ref, M, op, twin):
        if q == 'transitions':
            gs, ge = got
            rs, re_ = ref
            if gs.shape != rs.shape:
                return f'states shape {gs.shape} vs {rs.shape}'
            amb = self.ambiguous_site_entries(M, float(op.get('radius', 0.8)), op.get('inner', 1.0))
            diff = gs != rs
            if np.any(diff & ~amb):
                return f'{int(np.sum(diff & ~amb))} site assignments differ'
            if amb.any():
                self.stats.relax('site_boundary_entries', int(amb.sum()))
                return None
            if ge.shape != re_.shape or not np.array_equal(ge, re_):
                return 'transition events differ'
            return None
        if q == 'to_volume':
            if got.shape != ref.shape:
                return f'volume shape {got.shape} vs {ref.shape}'
            if got.sum() != ref.sum():
                return f'volume total {got.sum()} vs {ref.sum()}'
            l1 = int(np.abs(got - ref).sum())
            if l1 == 0:
                return None
            amb = 0
            P = M['P'].reshape(-1, 3)
            for ax in range(3):
                nb = got.shape[ax]
                x = P[:, ax] * nb
                fr = np.abs(x - np.round(x))
                # also coordinates a hair below 1.0 wrap to voxel 0 vs last
                amb_ax = fr < 1e-7
                amb = amb + amb_ax if isinstance(amb, np.ndarray) else amb_ax
            n_amb = int(np.sum(amb > 0))
            if l1 <= 2 * n_amb:
                self.stats.relax('voxel_boundary_samples', n_amb)
                return None
            return f'volume L1 difference {l1} with only {n_amb} samples on a voxel boundary'
        if q == 'rdf':
            if got.shape != ref.shape:
                return f'shape {got.shape} vs {ref.shape}'
            if np.allclose(got, ref, rtol=1e-9, atol=1e-12, equal_nan=True):
                return None
            if self.rdf_ambiguous(M, op):
                self.stats.relax('rdf_bin_edge')
                return None
            return f'rdf differs (max {np.nanmax(np.abs(got - ref)):.3g})'
        got = np.asarray(got, dtype=float)
        ref = np.asarray(ref, dtype=float)
        if q == 'orientations' and (got.shape != ref.shape or not np.allclose(got, ref, rtol=1e-7, atol=1e-8, equal_nan=True)) and self.orientations_ambiguous(M, op):
            self.stats.relax('orientations_link_criterion_tie')
            return None
        if got.shape != ref.shape:
            return f'shape {got.shape} vs {ref.shape}'
        if q == 'plot':
            return None if np.array_equal(got, ref) else f'number of traces {got} vs {ref}'
        if q == 'shape':
            # cluster membership is discontinuous at the radius and at the supercell fold: a representation round trip may move
            # a point across by an ulp, so only a gross disagreement in the number of collected points is judged
            dn = np.abs(got[:, 0] - ref[:, 0])
            if np.all(dn <= 2 + 0.02 * ref[:, 0]):
                if dn.any():
                    self.stats.relax('shape_cluster_boundary')
                return None
            return f'numbers of points per site {got[:, 0]} vs {ref[:, 0]}'
        if q in ('vibration_amplitude', 'attempt_frequency', 'haven_ratio'):
            sp = np.asarray(twin.metrics().speed())
            amax = float(np.abs(M['lattice']).sum())
            if q == 'attempt_frequency' and np.any(np.abs(sp).max(axis=1) < 1e-7 * amax):
                self.stats.relax('static_atom_attempt_frequency')
                return None
            if q == 'vibration_amplitude' and np.any(np.abs(sp[:, 1:]) < 1e-9 * amax):
                self.stats.relax('zero_speed_amplitude_sign')
                return None
            if q == 'haven_ratio' and (not np.all(np.isfinite(ref)) or abs(float(ref[0])) > 1e12):
                self.stats.relax('haven_ratio_degenerate')
                return None
        if q in ('get_structure', 'center_of_mass_q', 'iterate', 'iter_partial'):
            d = circ_max(got, ref)
            return None if d <= 1e-9 else f'max circular difference {d:.3g}'
        rtol, atol = self.tolerance(q, M)
        if q == 'vibration_amplitude':
            atol = 1e-9 * float(np.abs(M['lattice']).sum())
        if q == 'attempt_frequency':
            atol = 1e-9 * float(np.nanmax(np.abs(ref))) if ref.size else 0.0
        if q == 'tracer_diffusivity':
            atol = 1e-12 * 1e-20 * float(np.abs(M['lattice']).sum()) ** 2 / (len(M['P']) * M['time_step'])
        if np.allclose(got, ref, rtol=rtol, atol=atol, equal_nan=True):
            return None
        with np.errstate(all='ignore'):
            return f'max abs difference {np.nanmax(np.abs(got - ref)):.3g} (rtol {rtol}, atol {atol:.3g})'

    def on_a_discontinuity(self, q, M, op) -> bool:
        """Do the model data of this query sit (numerically) exactly on a decision boundary of a discontinuous analysis?"""
        try:
            if q == 'transitions':
                return bool(self.ambiguous_site_entries(M, float(op.get('radius', 0.8)), op.get('inner', 1.0)).any())
            if q == 'rdf':
                return self.rdf_ambiguous(M, op)
            if q == 'orientations':
                return self.orientations_ambiguous(M, op)
        except Exception:  # noqa: BLE001
            return False
        return False

    def orientations_ambiguous(self, M, op) -> bool:
        """Orientations links satellites closer than 1.5 x the smallest centre-satellite distance: a tie with that criterion
        (or a zero distance) makes the number of links depend on the last bit."""
        from pymatgen.core import Lattice

        L = Lattice(M['lattice'])
        c = [s == self.sym(op.get('s1', 0)) for s in M['symbols']]
        t = [s == self.sym(op.get('s2', 1)) for s in M['symbols']]
        if not any(c) or not any(t):
            return False
        d = L.get_all_distances(M['P'][0][c], M['P'][0][t])
        dmin = float(d.min())
        if dmin < 1e-9:
            return True
        crit = 1.5 * dmin
        return bool(np.any(np.abs(d - crit) < 1e-7 * crit) or np.sum(np.abs(d - dmin) < 1e-9 * dmin) > 1 and False)

    def ambiguous_site_entries(self, M, radius, inner):
        from pymatgen.core import Lattice

        L = Lattice(M['lattice'])
        mask = [s == self.sym(0) for s in M['symbols']]
        P = M['P'][:, mask]
        nf, na, _ = P.shape
        d = L.get_all_distances(P.reshape(-1, 3), self.sites.frac_coords)  # (nf*na, nsites)
        amb = np.zeros(nf * na, dtype=bool)
        for r in {radius, radius * inner}:
            amb |= np.any(np.abs(d - r) < 1e-4, axis=1)
        return amb.reshape(nf, na)

    def rdf_ambiguous(self, M, op):
        from pymatgen.core import Lattice

        L = Lattice(M['lattice'])
        res = op.get('res', 0.137)
        s1 = [s == self.sym(op.get('s1', 0)) for s in M['symbols']]
        s2 = [s == self.sym(op.get('s2', 1)) for s in M['symbols']]
        for t in range(len(M['P'])):
            d = L.get_all_distances(M['P'][t][s1], M['P'][t][s2]).ravel()
            x = d / res
            if np.any(np.abs(x - np.round(x)) < 1e-6):
                return True
        return False

    # -- main -----------------------------------------------------------------------------------
    def run(self):
        for i, (si, mode) in enumerate(self.roots):
            self.cur = si
            T, M = build_root(self.systems[si], mode, i)
            e = Entry(f'r{i}', T, M, 0, 'root_' + mode, kind='nobase' if mode == 'disp_nobase' else 'traj', sys=si)
            self.pool[e.name] = e
        self.trace.log(ev='world', systems=self.systems, roots=[list(r) for r in self.roots])
        self.check_all('initial')
        table = {'PERTURB': self.op_perturb, 'DERIVE': self.op_derive, 'EXTEND': self.op_extend, 'QUERY': self.op_query,
                 'SPAWN': self.op_spawn, 'DROP': self.op_drop, 'SET_META': self.op_set_meta}
        for i, op in enumerate(self.sc['ops']):
            self.step = i
            table[op['op']](op)
            self.last3 = (self.last3 + [op.get('how') or op.get('q') or op['op']])[-3:]
            if len(self.last3) == 3:
                self.stats.state('tri', *self.last3)
            # non-interference: a seeded sample every step is replaced by the full pool every 4 steps (cheap)
            if i % 4 == 3:
                self.check_all(f'non-interference after step {i}')
        self.step = len(self.sc['ops'])
        self.check_all('final')
        # every client lets go of its suspended iterators; finalising a generator must not touch the trajectories
        import gc

        self.held_iters.clear()
        gc.collect()
        self.check_all('after dropping suspended iterators')
        # finally the public API view of every object
        for e in list(self.pool.values()):
            if e.kind == 'traj':
                self.api_positions_check(e)
        self.check_all('after final observation')


def execute(scenario: dict, workdir: str, keep_events: bool = False) -> dict:
    run = Run(scenario, keep_events)
    violation = None
    try:
        run.run()
    except Violation as v:
        violation = v.to_json()
        run.trace.log(ev='VIOLATION', cls=v.cls, step=v.step)
    st = run.stats
    res = {
        'digest': run.trace.digest(),
        'violation': violation,
        'stats': st.to_json(),
        'steps': run.trace.n,
        'oracle_checks': run.oracle_checks,
        'nontrivial': bool(st.faults.get('mode_flip')) and run.oracle_checks > 5,
        'fault_free': True,
    }
    if keep_events:
        res['events'] = run.trace.events
    return res


def simplify(sc: dict):
    if 'systems' not in sc['world']:  # older single-system replay: convert once
        c = copy.deepcopy(sc)
        systems, roots = systems_of(sc['world'])
        c['world'] = {'systems': copy.deepcopy(systems), 'roots': [list(r) for r in roots]}
        yield c
        return
    world = sc['world']
    for i, op in enumerate(sc['ops']):
        if op['op'] == 'DERIVE' and op['how'] == 'slice' and op['slice'] != [None, None, None]:
            for alt in ([op['slice'][0], None, None], [None, op['slice'][1], None], [None, None, op['slice'][2]]):
                if alt != op['slice']:
                    c = copy.deepcopy(sc)
                    c['ops'][i]['slice'] = alt
                    yield c
        if op['op'] == 'DERIVE' and op['how'] == 'filter' and (len(op['which']) > 1 or op['sel'] != 'str'):
            c = copy.deepcopy(sc)
            c['ops'][i]['which'] = op['which'][:1]
            c['ops'][i]['sel'] = 'str'
            yield c
    roots = world['roots']
    # fewer roots (names r<i> are positional: renumber references)
    if len(roots) > 1:
        for drop in range(len(roots)):
            c = copy.deepcopy(sc)
            c['world']['roots'] = [r for k, r in enumerate(roots) if k != drop]
            ren = {f'r{k}': (f'r{k - 1}' if k > drop else f'r{k}') for k in range(len(roots))}
            ren[f'r{drop}'] = 'r_gone'
            for o in c['ops']:
                for key in ('obj', 'other'):
                    if o.get(key) in ren:
                        o[key] = ren[o[key]]
            yield c
    # fewer systems
    if len(world['systems']) > 1:
        used = {r[0] for r in roots} | {o['sys'] % len(world['systems']) for o in sc['ops'] if o['op'] == 'SPAWN'}
        for drop in range(len(world['systems'])):
            if drop in used:
                continue
            c = copy.deepcopy(sc)
            del c['world']['systems'][drop]
            for r in c['world']['roots']:
                if r[0] > drop:
                    r[0] -= 1
            for o in c['ops']:
                if o['op'] == 'SPAWN':
                    k = o['sys'] % len(world['systems'])
                    o['sys'] = k - 1 if k > drop else k
            yield c
    for k, r in enumerate(roots):
        if r[1] != 'wrapped':
            c = copy.deepcopy(sc)
            c['world']['roots'][k][1] = 'wrapped'
            yield c
    for si, w in enumerate(world['systems']):
        if w['lattice']['kind'] != 'cubic' or w['lattice'].get('rot'):
            c = copy.deepcopy(sc)
            a = w['lattice']['params'][0]
            c['world']['systems'][si]['lattice'] = {'kind': 'cubic', 'params': [a, a, a, 90.0, 90.0, 90.0], 'rot': None}
            yield c
        if w['na'] > 1:
            c = copy.deepcopy(sc)
            c['world']['systems'][si]['na'] = max(1, w['na'] // 2)
            c['world']['systems'][si]['species'] = w['species'][: c['world']['systems'][si]['na']]
            yield c
        if w['nf'] > 2:
            c = copy.deepcopy(sc)
            c['world']['systems'][si]['nf'] = max(2, w['nf'] // 2)
            yield c
            c = copy.deepcopy(sc)
            c['world']['systems'][si]['nf'] = w['nf'] - 1
            yield c


LEVEL = 'exploration'
BUDGET = {'quick': 60, 'thorough': 900}
RUN_TIMEOUT = 180
DET_SEEDS = {'quick': 8, 'thorough': 64}
RULE = (
    'Run i is generated from run_seed(i): a seeded constant-cell world (cubic/orthorhombic/hexagonal/triclinic, optionally rotated; 1-6 atoms incl. '
    'S vs Si; 2-24 frames; 30% on an exact k/7,k/9,k/11 grid; roots constructed as wrapped, unwrapped, integer-shifted or displacement data) and '
    '20-120 API calls by 1-3 logical clients on a shared pool: representation flips (to_positions/to_displacements/positions/displacements), '
    'derivations (filter, slices with any start/stop/step, list and int indexing, split, extend, drift correction, centre of mass, held Transitions) '
    'and read-only queries (displacements, distances, MSD, drift, metrics, volume, transitions, RDF, structures). After every call the touched objects, '
    'and every 4 calls the whole pool, are compared with a numpy reference model; every query is compared with the same query on a pristine twin. '
    'Fault-free configuration: the only perturbation is the call history itself. Non-trivial = at least one representation flip and more than 5 '
    'oracle comparisons; distinct = distinct sha256 digests of the canonical event log.'
)
STATE_MEASURE = 'distinct (object origin, representation before, call, representation after, provenance depth) tuples plus distinct call-kind trigrams'
REAL_VS_STUB = {
    'real': ['gemdat.Trajectory and everything it calls (pymatgen Trajectory/Structure/Lattice, gemdat.metrics, volume, transitions, rdf)'],
    'simulated': ['which logical client issues which call on which shared object (seeded scheduler)'],
    'stub': [],
    'faults': 'none: C15 has no I/O, clock or concurrency; asynchronous interrupts are outside its quantifier (histories)',
}
ASSUMPTIONS = [
    'constant-cell trajectories only (the quantifier of C15); step sizes stay 0.05 away from the half-cell minimum-image boundary',
    'numerical agreement is judged at 1e-9 (circular, fractional); three narrow relaxations (voxel boundary, site-radius boundary, zero-speed sign) are counted in the evidence',
    'split() boundaries are C19\'s business: only contiguity, chronology and content of the parts are checked',
]
