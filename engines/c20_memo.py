"""C20 - memoised analysis results are transparent and never leak between objects.

Simulated system: the real ``weak_lru_cache`` and all decorated methods of
Transitions, Jumps, TrajectoryMetrics and Collective on real instances, CPython's
weakref / lru_cache / refcounting / cyclic GC / allocator.  The scheduler owns who
holds a reference and when it is dropped, when the collector runs, whether a new
object is created right where an old one died, and how many keys a cache holds.

Oracle: an *uncached twin* of every analysis class (same class with each decorated
method replaced by its ``__wrapped__`` original, module globals re-pointed while the
twin computes), so the expected value never touches any cache.  See DESIGN.md §5.
"""

from __future__ import annotations

import copy
import gc
import os
import hashlib
import json
import sys
import warnings
import weakref

import numpy as np

from sim.core import HarnessError, SimRandom, Stats, Trace, Violation, _round_sig

PROP = 'C20'

# (method name, list of (args, kwargs) variants) - JSON-able
METHODS = {
    'metrics': [
        ('speed', [((), {})]),
        ('particle_density', [((), {})]),
        ('mol_per_liter', [((), {})]),
        ('tracer_diffusivity', [((), {}), ((), {'dimensions': 1}), ((), {'dimensions': 2}), ((), {'dimensions': 3})]),
        ('tracer_diffusivity_center_of_mass', [((), {}), ((), {'dimensions': 1}), ((), {'dimensions': 2})]),
        ('haven_ratio', [((), {}), ((), {'dimensions': 2})]),
        ('tracer_conductivity', [((), {'z_ion': 1}), ((), {'z_ion': 2}), ((), {'z_ion': 1, 'dimensions': 2}), ((), {'dimensions': 1, 'z_ion': 2}),
                                 ((), {'z_ion': 2, 'dimensions': 1}), ((), {'dimensions': 2, 'z_ion': 1}), ((), {'z_ion': 3, 'dimensions': 3}),
                                 ((), {'z_ion': -1}), ((), {'z_ion': -2})]),  # hash(-1) == hash(-2) in CPython
        ('attempt_frequency', [((), {})]),
        ('vibration_amplitude', [((), {})]),
        ('amplitudes', [((), {})]),
    ],
    'transitions': [
        ('matrix', [((), {})]),
        ('states_next', [((), {})]),
        ('states_prev', [((), {})]),
    ],
    'jumps': [
        ('jump_diffusivity', [((3,), {}), ((1,), {}), ((2,), {}), ((), {'dimensions': 2}), ((), {'dimensions': 3}), ((-1,), {}), ((-2,), {})]),
        ('matrix', [((), {})]),
        ('collective', [((), {}), ((0.5,), {}), ((2.0,), {}), ((), {'max_dist': 4.0}), ((), {'max_dist': 2.0}), ((1,), {}),
                        (({'fwu': [2.0, 'bohr']},), {}), ((), {'max_dist': {'fwu': [4.0, 'bohr']}}), (({'npf': 2.0},), {}), ((), {'max_dist': {'fwu': [0.5, 'nm']}}),
                        ((0,), {}), ((), {'max_dist': 0.0}), ((False,), {})]),  # falsy but legal: no neighbour is closer than 0
        ('activation_energies', [((2,), {}), ((3,), {}), ((), {'n_parts': 2}), ((60,), {})]),
        ('counter', [((), {})]),
        ('_counter', [((), {})]),
        ('to_graph', [((), {}), ((None, 0.5), {}), ((0.1,), {}), ((), {'max_e_act': 0.3}), ((), {'min_e_act': 0.2, 'max_e_act': 0.6}),
                      ((), {'min_e_act': 0.3}), ((0.3,), {}), ((), {'max_e_act': 0.1}), ((), {'max_e_act': 0.2, 'min_e_act': 0.6}), ((0.6, 0.2), {}),
                      ((), {'max_e_act': {'fwu': [0.3, 'Ha']}}), (({'fwu': [0.1, 'Ha']},), {}), ((), {'max_e_act': {'npf': 0.3}})]),
        ('rates', [((2,), {}), ((3,), {}), ((), {'n_parts': 2}), ((60,), {})]),
        ('n_solo_jumps', [('property', {})]),
        ('solo_fraction', [('property', {})]),
    ],
    'collective': [
        ('site_pair_count_matrix', [((), {})]),
        ('site_pair_count_matrix_labels', [((), {})]),
        ('multiple_collective', [((), {})]),
    ],
}


def _tuplify(x):
    return tuple(_tuplify(v) for v in x) if isinstance(x, list) else x


def decode_arg(v):
    """JSON-able spellings of argument values that compare equal to a plain number but are not one."""
    if isinstance(v, dict) and 'fwu' in v:
        from pymatgen.core.units import FloatWithUnit

        return FloatWithUnit(v['fwu'][0], v['fwu'][1])
    if isinstance(v, dict) and 'npf' in v:
        return np.float64(v['npf'])
    return v


def alt_conversion(transitions, *, minimal_residence: int = 0):
    """A user-supplied conversion_method: the generic one minus the last jump (another jump table for the same Transitions)."""
    from gemdat.jumps import _generic_transitions_to_jumps

    df = _generic_transitions_to_jumps(transitions, minimal_residence=minimal_residence)
    return df.iloc[:-1].reset_index(drop=True) if len(df) > 2 else df


# library code that *consumes* memoised values (plots, derived quantities): afterwards the memoised answers must be unchanged
CONSUMERS = {
    'jumps': [('plot_jumps_vs_distance', {'backend': 'matplotlib'}), ('plot_jumps_vs_distance', {'backend': 'plotly'}), ('plot_jumps_vs_time', {'backend': 'matplotlib'}),
              ('plot_jumps_vs_time', {'backend': 'plotly'}), ('plot_collective_jumps', {'backend': 'matplotlib'}), ('plot_collective_jumps', {'backend': 'plotly'}),
              ('plot_jumps_3d', {'backend': 'matplotlib'}), ('plot_jumps_3d', {'backend': 'plotly'}), ('activation_energy_between_sites', {'start': 'A', 'stop': 'B'}),
              ('activation_energy_between_sites', {'start': 'B', 'stop': 'A'}), ('split', {'n_parts': 2}), ('jump_names', 'property'), ('n_jumps', 'property')],
    'transitions': [('occupancy', {}), ('occupancy_by_site_type', {}), ('atom_locations', {}), ('split', {'n_parts': 2}), ('jumps', {}),
                    ('radial_distribution', {'floating_specie': 'Li', 'max_dist': 3.0, 'resolution': 0.3})],
    'metrics': [],
    'collective': [],
}


DECORATED = {
    'metrics': 10, 'transitions': 3, 'jumps': 8, 'collective': 3,
}


def setup():
    warnings.filterwarnings('ignore')
    np.seterr(all='ignore')
    import networkx  # noqa: F401
    import pandas  # noqa: F401

    import gemdat  # noqa: F401
    import gemdat.collective  # noqa: F401
    import gemdat.jumps  # noqa: F401
    import gemdat.metrics  # noqa: F401
    import gemdat.transitions  # noqa: F401
    import matplotlib

    matplotlib.use('Agg')
    import matplotlib.pyplot  # noqa: F401

    import gemdat.plots.matplotlib  # noqa: F401
    import gemdat.plots.plotly  # noqa: F401
    import gemdat.rdf  # noqa: F401

    sys.unraisablehook = lambda *a, **k: None


# ---------------------------------------------------------------------------
# deep fingerprints of results


def _canon(x, depth=0):
    import networkx as nx
    import pandas as pd
    from pymatgen.core.units import FloatWithUnit

    from gemdat.collective import Collective

    if depth > 8:
        return '<deep>'
    if x is None or isinstance(x, (bool, str)):
        return x
    if isinstance(x, FloatWithUnit):
        return ['fwu', _f(float(x)), str(x.unit)]
    if isinstance(x, (int, np.integer)):
        return int(x)
    if isinstance(x, (float, np.floating)):
        return _f(float(x))
    if isinstance(x, np.ndarray):
        if x.dtype.kind == 'V':
            return ['sarr', list(x.shape), _canon(x.tolist(), depth + 1)]
        if x.dtype.kind == 'O':
            return ['oarr', list(x.shape), _canon(x.tolist(), depth + 1)]
        if x.dtype.kind in 'fc':
            return ['arr', list(x.shape), 'f', [float(v) for v in np.asarray(x, dtype=np.float64).ravel()]]
        return ['arr', list(x.shape), 'i', [float(v) for v in np.asarray(x, dtype=np.int64).ravel()]]
    if isinstance(x, pd.DataFrame):
        return ['df', _canon(list(x.index), depth + 1), _canon(list(x.columns), depth + 1), _canon(x.to_numpy(dtype=float), depth + 1)]
    if isinstance(x, pd.Series):
        return ['ser', _canon(list(x.index), depth + 1), _canon(list(x.values), depth + 1)]
    if isinstance(x, nx.Graph):
        nodes = sorted(([_canon(n, depth + 1), _canon(dict(d), depth + 1)] for n, d in x.nodes(data=True)), key=lambda v: json.dumps(v[0], sort_keys=True))
        edges = sorted(([_canon(a, depth + 1), _canon(b, depth + 1), _canon(dict(d), depth + 1)] for a, b, d in x.edges(data=True)), key=lambda v: json.dumps(v[:2], sort_keys=True))
        return ['graph', type(x).__name__, nodes, edges]
    if isinstance(x, Collective):
        return ['coll', _canon(x.n_solo_jumps, depth + 1), _canon(x.n_coll_jumps, depth + 1), _canon(x.coll_jumps, depth + 1),
                _canon([[a, b] for a, b in x.collective], depth + 1), _f(float(x.max_dist)), _canon(x.max_steps, depth + 1)]  # (max_dist: its number only - an equal-comparing argument of another type/unit shares the entry by design of lru_cache)
    if hasattr(x, 'data') and hasattr(x, 'transitions') and isinstance(getattr(x, 'data', None), pd.DataFrame):  # a Jumps
        return ['jumps', _canon(x.data, depth + 1), _canon(getattr(x, 'minimal_residence', None), depth + 1)]
    if hasattr(x, 'states') and hasattr(x, 'events') and isinstance(getattr(x, 'events', None), pd.DataFrame):  # a Transitions
        return ['transitions', _canon(np.asarray(x.states), depth + 1), _canon(x.events, depth + 1)]
    if isinstance(x, dict):  # incl. Counter
        return ['dict', sorted(([_canon(k, depth + 1), _canon(v, depth + 1)] for k, v in x.items()), key=lambda v: json.dumps(v[0], sort_keys=True))]
    if isinstance(x, (list, tuple)):
        return [_canon(v, depth + 1) for v in x]
    if isinstance(x, (set, frozenset)):
        return ['set', sorted((_canon(v, depth + 1) for v in x), key=lambda v: json.dumps(v, sort_keys=True))]
    return ['obj', type(x).__name__]


def _f(v: float):
    if v != v:
        return 'nan'
    if v in (float('inf'), float('-inf')):
        return 'inf' if v > 0 else '-inf'
    return float(v)  # raw: values are compared with a tolerance (approx_eq), never by hash


def approx_eq(a, b, rtol=1e-8, atol=1e-300) -> bool:
    """Structural equality of two canonical values with a relative tolerance on floats.

    The analysis objects of one world share their trajectory, whose representation is flipped in place by
    the computations themselves (C15's hidden state), so a recomputation may differ in the last bits."""
    if isinstance(a, float) and isinstance(b, (float, int)) or isinstance(b, float) and isinstance(a, (float, int)):
        a, b = float(a), float(b)
        return abs(a - b) <= atol + rtol * max(abs(a), abs(b))
    if type(a) is not type(b):
        return False
    if isinstance(a, list):
        if len(a) != len(b):
            return False
        if len(a) == 4 and a[0] == 'arr' and b[0] == 'arr':
            if a[1] != b[1] or a[2] != b[2]:
                return False
            x, y = np.asarray(a[3], dtype=float), np.asarray(b[3], dtype=float)
            scale = float(np.nanmax(np.abs(x))) if x.size and np.isfinite(x).any() else 0.0
            return bool(np.allclose(x, y, rtol=rtol, atol=1e-9 * scale, equal_nan=True))
        return all(approx_eq(u, v, rtol, atol) for u, v in zip(a, b))
    return a == b


def coarse_hash(value) -> str:
    """Hash for the event log / digest: floats rounded to 6 significant digits."""
    def r(v):
        if isinstance(v, float):
            return _round_sig(v, 6) if v == v and abs(v) != float('inf') else str(v)
        if isinstance(v, list):
            if len(v) == 4 and v[0] == 'arr':
                return ['arr', v[1], v[2], [r(float(t)) for t in v[3]]]
            return [r(t) for t in v]
        return v
    return hashlib.sha1(json.dumps(r(value), sort_keys=True, default=str).encode()).hexdigest()[:16]


def fingerprint(kind: str, method: str, value):
    """Canonical value (nested lists). Order-insensitive where the code's own order comes from set iteration."""
    if kind == 'collective' and method == 'site_pair_count_matrix_labels':
        return ['labels', sorted(_canon(v) for v in value)]
    if kind == 'collective' and method == 'site_pair_count_matrix':
        m = np.asarray(value)
        return ['spcm', list(m.shape), int(m.sum()), sorted(int(v) for v in m.ravel() if v)]
    return _canon(value)


def same(t1, t2) -> bool:
    """Compare two outcomes ('ok', value) | ('exc', name)."""
    if t1[0] != t2[0]:
        return False
    if t1[0] == 'exc':
        return t1[1] == t2[1]
    return approx_eq(t1[1], t2[1])


# ---------------------------------------------------------------------------
# worlds: tiny lattice gases with site exclusion


def gen_world_params(rng: SimRandom, idx: int) -> dict:
    if rng.chance(0.08):  # swarm: an occasional larger world
        return {
            'seed': rng.getrandbits(32), 'n_sites': rng.randint(7, 10), 'n_atoms': rng.randint(4, 6), 'nf': rng.randint(71, 200),
            'spacing': round(2.6 + 0.013 * idx + rng.uniform(0, 0.2), 4), 'b': round(4.0 + 0.017 * idx, 4), 'temp': 300.0 + 7.0 * idx,
            'p_hop': 0.15, 'dt': 2e-15, 'label_shift': 0,
        }
    return {
        'seed': rng.getrandbits(32),
        'n_sites': rng.randint(4, 6),
        'n_atoms': rng.randint(2, 3),
        'nf': rng.randint(30, 70),
        'spacing': round(2.6 + 0.013 * idx + rng.uniform(0, 0.2), 4),
        'b': round(4.0 + 0.017 * idx, 4),
        'temp': 300.0 + 7.0 * idx,
        'p_hop': rng.pick([0.15, 0.25, 0.4]),
        'dt': 2e-15,
        'label_shift': 0,
    }


def sibling_world(rng: SimRandom, p: dict, idx: int) -> dict:
    """Same hop history (identical site states, events and jump table) but another cell, time step, temperature and
    site labelling: the *analysis results* differ while the tables the objects are built from compare equal."""
    q = dict(p)
    q['spacing'] = round(p['spacing'] * rng.pick([1.07, 1.19]), 4)
    q['b'] = round(p['b'] + 0.31 + 0.011 * idx, 4)
    q['temp'] = round(p['temp'] * rng.pick([1.37, 0.61]), 2)
    q['dt'] = rng.pick([1e-15, 3e-15])
    q['label_shift'] = rng.pick([0, 1])
    q['sibling_of_seed'] = p['seed']
    return q


class World:
    def __init__(self, p: dict, shared_sites=None):
        self.shared_sites = shared_sites
        from pymatgen.core import Element, Lattice, Structure

        from gemdat import Trajectory
        from gemdat.transitions import Transitions

        self.p = p
        for attempt in range(50):
            self._build(p, p['seed'] + attempt)
            if len(self.base['events']) >= 4:
                break
        else:
            raise HarnessError(f'world without transitions: {p}')

    def _build(self, p, seed):
        from pymatgen.core import Element, Lattice, Structure

        from gemdat import Trajectory
        from gemdat.transitions import Transitions

        g = np.random.default_rng(seed)
        n_sites, n_atoms, nf = p['n_sites'], p['n_atoms'], p['nf']
        L = Lattice.from_parameters(n_sites * p['spacing'], p['b'], 4.5, 90, 90, 90)
        labels = ['A' if (k + p.get('label_shift', 0)) % 2 == 0 else 'B' for k in range(n_sites)]
        site_frac = np.array([[(k + 0.5) / n_sites, 0.5, 0.5] for k in range(n_sites)])
        self.sites = self.shared_sites if self.shared_sites is not None else Structure(L, ['Li'] * n_sites, site_frac, labels=labels)
        occ = [int(x) for x in g.choice(n_sites, n_atoms, replace=False)]
        pos = np.zeros((nf, n_atoms, 3))
        moving = [None] * n_atoms
        for t in range(nf):
            for a in range(n_atoms):
                if moving[a] is not None:
                    tgt = moving[a]
                    x0, x1 = site_frac[occ[a], 0], site_frac[tgt, 0]
                    dx = x1 - x0
                    dx -= round(dx)
                    pos[t, a] = [x0 + 0.5 * dx, 0.5, 0.5]
                    occ[a] = tgt
                    moving[a] = None
                    continue
                pos[t, a] = site_frac[occ[a]]
                if g.random() < p['p_hop'] and t < nf - 2:
                    tgt = int((occ[a] + g.choice([-1, 1])) % n_sites)
                    if tgt not in occ and tgt not in [m for m in moving if m is not None]:
                        moving[a] = tgt
            pos[t] += g.normal(0, 0.01, (n_atoms, 3))
        self.pos = np.mod(pos, 1)
        self.lattice = L
        self.species = [Element('Li')] * n_atoms
        self.dt = p.get('dt', 2e-15)
        self.traj = Trajectory(species=self.species, coords=self.pos.copy(), lattice=L, time_step=self.dt, metadata={'temperature': p['temp']})
        try:
            tr = Transitions.from_trajectory(trajectory=self.traj, sites=self.sites, floating_specie='Li', site_radius=1.0)
        except ValueError:  # no transition at all in this sample
            self.base = {'events': []}
            return
        self.base = {
            'trajectory': self.traj,
            'diff_trajectory': tr.diff_trajectory,
            'sites': self.sites,
            'events': tr.events,
            'states': tr.states,
            'inner_states': tr.inner_states,
        }
        self._variants: dict = {}

    def traj_variant(self, v: int):
        from gemdat import Trajectory

        if v == 0:
            return self.traj
        t = self._variants.get(v)
        if t is None:
            shift = np.zeros_like(self.pos)
            shift[:, :, 1] = 0.0007 * v * np.arange(len(self.pos))[:, None] / len(self.pos)
            t = Trajectory(species=self.species, coords=np.mod(self.pos + shift, 1), lattice=self.lattice, time_step=self.dt,
                           metadata={'temperature': self.p['temp']} if v != 2 else {'note': 'no temperature'})
            self._variants[v] = t
        return t

    def transitions_kwargs(self, v: int) -> dict:
        b = dict(self.base)
        if v:
            n = max(2, len(b['events']) - (v % 5))
            b['events'] = b['events'].iloc[:n]
            st = b['states'].copy()
            st[: (v % 7) + 1] = -1
            b['states'] = st
        return b


# ---------------------------------------------------------------------------
# the uncached twins (oracle)


class Twins:
    def __init__(self):
        import gemdat.collective as mc
        import gemdat.jumps as mj
        import gemdat.metrics as mm
        import gemdat.transitions as mt

        self.mods = (mc, mj, mm, mt)
        self.real = {'metrics': mm.TrajectoryMetrics, 'transitions': mt.Transitions, 'jumps': mj.Jumps, 'collective': mc.Collective}
        self.twin = {k: self._twin(c) for k, c in self.real.items()}
        self.n_decorated = {k: sum(1 for f in vars(c).values() if callable(f) and hasattr(f, '__wrapped__')) for k, c in self.real.items()}
        self.patches = [
            (mt, 'TrajectoryMetrics', 'metrics'),
            (mj, 'TrajectoryMetrics', 'metrics'),
            (mm, 'TrajectoryMetrics', 'metrics'),
            (mj, 'Collective', 'collective'),
            (mc, 'Collective', 'collective'),
            (mj, 'Jumps', 'jumps'),
            (mj, 'Transitions', 'transitions'),
            (mt, 'Transitions', 'transitions'),
        ]

    @staticmethod
    def _twin(cls):
        ns = {name: f.__wrapped__ for name, f in vars(cls).items() if callable(f) and hasattr(f, '__wrapped__')}
        return type('Uncached' + cls.__name__, (cls,), ns)

    def __enter__(self):
        self.saved = [(m, n, getattr(m, n)) for m, n, _ in self.patches if hasattr(m, n)]
        for m, n, k in self.patches:
            if hasattr(m, n):
                setattr(m, n, self.twin[k])
        return self

    def __exit__(self, *exc):
        for m, n, v in self.saved:
            setattr(m, n, v)
        return False


# ---------------------------------------------------------------------------
# generation


def generate(run_seed: int, tier: str = 'quick', stream: str = 'seq') -> dict:
    rng = SimRandom(run_seed)
    n_worlds = rng.weighted({2: 2, 3: 3, 5: 3, 8: 2, 12: 1})
    wparams = []
    for i in range(n_worlds):
        if i and rng.chance(0.4):
            oi = rng.randrange(len(wparams))
            sib = sibling_world(rng, wparams[oi], i)
            if rng.chance(0.5):  # one Structure *instance* with the known sites reused for both simulations
                sib['share_sites_with'] = oi if 'share_sites_with' not in wparams[oi] else wparams[oi]['share_sites_with']
                sib['label_shift'] = wparams[oi].get('label_shift', 0)
            wparams.append(sib)
        else:
            wparams.append(gen_world_params(rng, i))
    n_clients = rng.randint(1, 4)
    cfg = {
        'n_clients': n_clients,
        'gc_mode': rng.weighted({'manual': 6, 'auto_tiny': 2, 'auto_default': 1}),
        'gc_inside_call': rng.chance(0.3),
        'kinds': rng.pick([['metrics', 'transitions', 'jumps', 'collective']] * 3 + [['metrics'], ['transitions', 'jumps'], ['jumps', 'collective'], ['metrics', 'transitions']]),
        'arg_spread': rng.pick([1, 2, 99]),  # how many arg variants per method are in play
    }
    w = {
        'CREATE': rng.uniform(2, 5), 'QUERY': rng.uniform(5, 12), 'DROP': rng.uniform(1, 4), 'GC': rng.uniform(0.3, 2),
        'SHARE': rng.uniform(0, 1) if n_clients > 1 else 0, 'CHURN': rng.uniform(0, 1), 'REUSE': rng.uniform(0.5, 4),
        'FLOOD': rng.pick([0, 0, 0.15, 0.4]),
        'CONCURRENT': rng.pick([0, 0.5, 1.5]),
        'CONSUME': rng.pick([0, 1, 2.5]),
        'CLONE': rng.pick([0, 0.5, 1.5]),
        'FROM_WORKER': rng.pick([0, 0, 0.6, 1.5]),
        'GROW': rng.pick([0, 0, 0.6, 1.5]) if 'metrics' in cfg['kinds'] else 0,
    }
    n_ops = rng.randint(10, 120 if tier == 'quick' else 250)
    ops = []
    names = []  # (name, kind)
    counter = 0
    floods = 0

    def new_name():
        nonlocal counter
        counter += 1
        return counter

    def gen_create(kind=None):
        kind = kind or rng.pick(cfg['kinds'])
        op = {'op': 'CREATE', 'name': new_name(), 'kind': kind, 'w': rng.randrange(n_worlds), 'client': rng.randrange(n_clients)}
        if kind == 'metrics':
            op['v'] = rng.pick([0, 0, 1, 2])
            op['via'] = rng.pick(['ctor', 'api'])
        elif kind == 'transitions':
            op['v'] = rng.pick([0, 0, 1, 2])
        elif kind == 'jumps':
            op['mr'] = rng.pick([0, 0, 1])
            trs = [n for n, k in names if k == 'transitions']
            if trs and rng.chance(0.6):
                op['base'] = rng.pick(trs)
                op['via'] = rng.pick(['ctor', 'api'])
                op['conv'] = rng.pick(['default', 'default', 'alt'])
            elif rng.chance(0.25):
                par = [n for n, k in names if k in ('jumps', 'transitions')]
                if par:
                    pn = rng.pick(par)
                    pk = next(k for n, k in names if n == pn)
                    op = {'op': 'CREATE', 'name': op['name'], 'kind': 'part', 'parent': pn, 'n': rng.pick([2, 3]), 'i': rng.randrange(3), 'client': op['client'], 'w': 0}
                    names.append((op['name'], pk))
                    return op
        elif kind == 'collective':
            js = [n for n, k in names if k == 'jumps']
            if not js:
                return gen_create('jumps')
            op['via'] = rng.pick(['query', 'query', 'direct'])
            op['jumps'] = rng.pick(js)
            op['a'] = rng.randrange(6)
        names.append((op['name'], kind))
        return op

    def gen_query(name=None, kind=None):
        if name is None:
            name, kind = rng.pick(names)
        ms = METHODS[kind]
        mi = rng.randrange(len(ms))
        nvar = min(len(ms[mi][1]), cfg['arg_spread'])
        return {'op': 'QUERY', 'obj': name, 'm': mi, 'a': rng.randrange(nvar), 'client': rng.randrange(n_clients)}

    while len(ops) < n_ops:
        kind = rng.weighted(w)
        if not names and kind not in ('CREATE', 'FLOOD'):
            kind = 'CREATE'
        if kind == 'CREATE':
            ops.append(gen_create())
            if rng.chance(0.6):
                ops.append(gen_query(*names[-1]))
        elif kind == 'QUERY':
            q = gen_query()
            ops.append(q)
            if rng.chance(0.35):  # ask again (hit) / with another argument
                q2 = dict(q)
                if rng.chance(0.5):
                    _, k = next(x for x in names if x[0] == q['obj'])
                    q2['a'] = rng.randrange(min(len(METHODS[k][q['m']][1]), cfg['arg_spread']))
                ops.append(q2)
        elif kind == 'DROP':
            n, _ = rng.pick(names)
            ops.append({'op': 'DROP', 'obj': n, 'client': rng.pick(['all', 'all'] + list(range(n_clients)))})
        elif kind == 'GC':
            ops.append({'op': 'GC', 'gen': rng.pick([0, 1, 2, 2])})
        elif kind == 'SHARE':
            n, _ = rng.pick(names)
            ops.append({'op': 'SHARE', 'obj': n, 'client': rng.randrange(n_clients)})
        elif kind == 'CHURN':
            ops.append({'op': 'CHURN', 'n': rng.randint(1, 200)})
        elif kind == 'REUSE':
            # query X, drop X everywhere, create a same-kind object on another world right away, ask the same question
            n, k = rng.pick(names)
            if k == 'collective':
                continue
            q = gen_query(n, k)
            ops.append(q)
            new = {'op': 'REUSE_PROBE', 'obj': n, 'name': new_name(), 'w': rng.randrange(n_worlds), 'm': q['m'], 'a': q['a'],
                   'gc': rng.chance(0.3), 'client': rng.randrange(n_clients)}
            names.append((new['name'], k))
            ops.append(new)
        elif kind == 'GROW':
            # metrics over the client's own trajectory; the trajectory is extended in place; new metrics over the same object
            wq, vq = rng.randrange(n_worlds), rng.randrange(2)
            mi = rng.randrange(DECORATED['metrics'])
            n1 = new_name()
            ops.append({'op': 'CREATE', 'name': n1, 'kind': 'metrics', 'w': wq, 'v': vq, 'private': True, 'client': 0})
            names.append((n1, 'metrics'))
            ops.append({'op': 'QUERY', 'obj': n1, 'm': mi, 'a': 0, 'client': 0})
            ops.append({'op': 'GROW', 'w': wq, 'v': vq})
            n2 = new_name()
            ops.append({'op': 'CREATE', 'name': n2, 'kind': 'metrics', 'w': wq, 'v': vq, 'private': True, 'client': 0})
            names.append((n2, 'metrics'))
            ops.append({'op': 'QUERY', 'obj': n2, 'm': mi, 'a': 0, 'client': 0})
        elif kind == 'FROM_WORKER':
            if n_worlds < 2:
                continue
            k = rng.pick([x for x in cfg['kinds'] if x != 'collective'] or ['metrics'])
            wa = rng.randrange(n_worlds)
            wb = (wa + 1 + rng.randrange(n_worlds - 1)) % n_worlds
            mi = rng.randrange(DECORATED[k])
            na, nb = new_name(), new_name()
            ops.append({'op': 'FROM_WORKER', 'name': na, 'kind': k, 'w': wa, 'm': mi, 'extra': rng.randrange(3), 'client': rng.randrange(n_clients)})
            names.append((na, k))
            # the parent's own objects of the same kind, created afterwards, asked the same question
            for _ in range(rng.randint(1, 3)):
                c = {'op': 'CREATE', 'name': new_name(), 'kind': k, 'w': wb, 'client': rng.randrange(n_clients)}
                if k in ('metrics', 'transitions'):
                    c['v'] = 0
                names.append((c['name'], k))
                ops.append(c)
                ops.append({'op': 'QUERY', 'obj': c['name'], 'm': mi, 'a': 0, 'client': 0})
            ops.append({'op': 'QUERY', 'obj': na, 'm': mi, 'a': 0, 'client': 0})
        elif kind == 'CLONE':
            cand = list(names)
            if not cand:
                continue
            n, k = rng.pick(cand)
            if rng.chance(0.6):
                ops.append(gen_query(n, k))  # something is memoised for the original first
            nm = new_name()
            ops.append({'op': 'CLONE', 'obj': n, 'name': nm, 'how': rng.pick(['copy', 'copy', 'deepcopy', 'pickle']), 'client': rng.randrange(n_clients)})
            names.append((nm, k))
            ops.append(gen_query(nm, k))
        elif kind == 'CONSUME':
            cand = [(n, k) for n, k in names if k in ('jumps', 'transitions')]
            if not cand:
                continue
            n, k = rng.pick(cand)
            if rng.chance(0.5):
                ops.append(gen_query(n, k))
            ops.append({'op': 'CONSUME', 'obj': n, 'which': rng.randrange(16)})
        elif kind == 'CONCURRENT':
            # two fresh objects of one kind on two worlds, asked the same question by two caller threads at once
            if n_worlds < 2:
                continue
            k = rng.pick([x for x in cfg['kinds'] if x != 'collective'] or ['metrics'])
            wa = rng.randrange(n_worlds)
            wb = (wa + 1 + rng.randrange(n_worlds - 1)) % n_worlds
            na, nb = new_name(), new_name()
            for nm, ww in ((na, wa), (nb, wb)):
                c = {'op': 'CREATE', 'name': nm, 'kind': k, 'w': ww, 'client': rng.randrange(n_clients)}
                if k in ('metrics', 'transitions'):
                    c['v'] = 0
                names.append((nm, k))
                ops.append(c)
            mi = rng.randrange(DECORATED[k])
            ops.append({'op': 'CONCURRENT', 'a_obj': na, 'b_obj': nb, 'm': mi, 'a': rng.randrange(min(len(METHODS[k][mi][1]), cfg['arg_spread']))})
        elif kind == 'FLOOD' and floods < 2:
            floods += 1
            fk = rng.pick([k for k in ('metrics', 'transitions') if k in cfg['kinds']] or ['metrics'])
            mi = rng.randrange(len(METHODS[fk]))
            ops.append({'op': 'FLOOD', 'kind': fk, 'm': mi, 'a': 0, 'n': rng.randint(130, 200), 'requery': rng.randint(3, 12), 'drop': rng.chance(0.5)})
    return {
        'format': 1, 'property': PROP, 'run_seed': run_seed, 'stream': stream,
        'config': cfg, 'world': {'worlds': wparams}, 'ops': ops,
    }


# ---------------------------------------------------------------------------
# execution


class Entry:
    __slots__ = ('name', 'kind', 'recipe', 'obj', 'wr', 'holders', 'deps', 'maybe_deps', 'called', 'checkable', 'dead_id')

    def __init__(self, name, kind, recipe, obj, holder, deps=(), maybe_deps=(), checkable=True):
        self.name = name
        self.kind = kind
        self.recipe = recipe
        self.obj = obj
        self.wr = weakref.ref(obj)
        self.holders = {holder}
        self.deps = list(deps)
        self.maybe_deps = list(maybe_deps)
        self.called = []
        self.checkable = checkable
        self.dead_id = None


MAX_LIVE = 230


class Run:
    def __init__(self, scenario, keep_events=False):
        self.sc = scenario
        self.cfg = scenario['config']
        self.trace = Trace(keep=keep_events)
        self.stats = Stats()
        self.step = -1
        self.worlds: list = []
        self.entries: dict = {}
        self.truth: dict = {}
        self.first_fp: dict = {}
        self.twins = Twins()
        self.oracle_checks = 0
        self.flood_serial = 0
        self.asked: set = set()
        self.private: dict = {}
        # decorated methods the table does not know (none on the unchanged tree): exercised with no arguments
        import inspect

        self.methods = {}
        for kind, cls in self.twins.real.items():
            known = {m for m, _ in METHODS[kind]}
            extra = []
            for name, f in vars(cls).items():
                if callable(f) and hasattr(f, '__wrapped__') and name not in known:
                    try:
                        params = list(inspect.signature(f.__wrapped__).parameters.values())[1:]
                        if all(q.default is not q.empty or q.kind in (q.VAR_POSITIONAL, q.VAR_KEYWORD) for q in params):
                            extra.append((name, [((), {})]))
                    except (TypeError, ValueError):
                        pass
            self.methods[kind] = list(METHODS[kind]) + sorted(extra)
            self.n_extra = getattr(self, 'n_extra', 0) + len(extra)

    # -- helpers --------------------------------------------------------
    def violation(self, cls, detail, signature=None):
        raise Violation(f'{PROP}/{cls}', detail, signature or {}, self.step)

    def world(self, i):
        return self.worlds[i % len(self.worlds)]

    def private_traj(self, w, v, g, fresh: bool):
        """The client's own copy of a world trajectory, extended g times in place.  ``fresh`` builds a new one (for the twin)."""
        from gemdat import Trajectory

        def make(n):
            src = self.world(w).traj_variant(v)
            t = Trajectory(species=list(src.species), coords=np.array(self.world(w).pos, copy=True) if v == 0 else np.mod(np.asarray(src.positions), 1.0).copy(),
                           lattice=src.get_lattice(), time_step=src.time_step, metadata=dict(src.metadata))
            for _ in range(n):
                t.extend(t[1:3])
            return t

        if fresh:
            return make(g)
        key = (w % len(self.worlds), v)
        ent = self.private.get(key)
        if ent is None:
            ent = self.private[key] = {'traj': make(0), 'g': 0}
        return ent['traj']

    @staticmethod
    def root_world(recipe):
        while recipe[0] in ('part', 'collective', 'jumps_on', 'jumps_on_c'):
            recipe = recipe[1]
        return recipe[1]

    def build(self, recipe, twin: bool):
        """Construct the analysis object described by ``recipe`` (real or uncached twin class)."""
        C = self.twins.twin if twin else self.twins.real
        kind = recipe[0]
        if kind == 'metrics':
            _, w, v = recipe
            return C['metrics'](self.world(w).traj_variant(v))
        if kind == 'metrics_p':  # metrics over a trajectory of its own that the client has grown g times with extend()
            _, w, v, g = recipe
            return C['metrics'](self.private_traj(w, v, g, fresh=twin))
        if kind == 'transitions':
            _, w, v = recipe
            return C['transitions'](**self.world(w).transitions_kwargs(v))
        if kind == 'jumps':
            _, w, v, mr = recipe
            return C['jumps'](C['transitions'](**self.world(w).transitions_kwargs(v)), minimal_residence=mr)
        if kind == 'jumps_c':
            _, w, v, mr = recipe
            return C['jumps'](C['transitions'](**self.world(w).transitions_kwargs(v)), minimal_residence=mr, conversion_method=alt_conversion)
        if kind == 'jumps_on_c':
            _, base, mr = recipe
            return C['jumps'](self.build(base, twin), minimal_residence=mr, conversion_method=alt_conversion)
        if kind == 'collective':
            _, jrecipe, how, arg = recipe
            j = self.build(jrecipe, twin)
            w = self.root_world(jrecipe)
            if how == 'direct':
                return C['collective'](jumps=j, sites=self.world(w).sites, lattice=self.world(w).lattice, max_steps=4, max_dist=arg)
            return self.call(j, 'collective', METHODS['jumps'][2][1][arg])
        if kind == 'part':
            _, parent, n, i = recipe
            return self.build(parent, twin).split(n)[i]
        if kind == 'jumps_on':
            _, base, mr = recipe
            return C['jumps'](self.build(base, twin), minimal_residence=mr)
        raise HarnessError(f'bad recipe {recipe}')

    @staticmethod
    def call(obj, method, variant):
        args, kwargs = variant
        if args == 'property':
            return getattr(obj, method)
        return getattr(obj, method)(*[decode_arg(a) for a in args], **{k: decode_arg(v) for k, v in kwargs.items()})

    def expected_inprocess(self, recipe, kind, mi, ai):
        method, variants = self.methods[kind][mi]
        with self.twins:
            try:
                obj = self.build(recipe, twin=True)
                val = self.call(obj, method, variants[ai])
                return ('ok', fingerprint(kind, method, val))
            except Exception as e:  # noqa: BLE001
                return ('exc', type(e).__name__)

    def expected(self, recipe, kind, mi, ai):
        key = (recipe, mi, ai)
        t = self.truth.get(key)
        if t is None:
            t = self.expected_inprocess(recipe, kind, mi, ai)
            self.truth[key] = t
            # second opinion: the same uncached computation in a process that has seen none of this run's history.  The
            # uncached twin bypasses weak_lru_cache, but not a memo hidden somewhere else in the library.
            shared = self.sc['world']['worlds'][self.root_world(recipe) % len(self.worlds)]
            n = len(self.truth)
            if self.zygote and ((('sibling_of_seed' in shared or 'share_sites_with' in shared) and n % 3 == 0) or n % 12 == 0):
                p = self.pristine(recipe, kind, mi, ai)
                self.oracle_checks += 1
                self.stats.probe('pristine_process_crosschecks')
                if p is not None and not same(t, p):
                    method, variants = self.methods[kind][mi]
                    self.violation(
                        'result_depends_on_process_history',
                        f'uncached {kind}.{method}{variants[ai]} for recipe {recipe} gives another value in this process than in a pristine process '
                        'that has analysed nothing before: something outside the object carries results from one object to another',
                        {'kind': kind, 'method': method},
                    )
        return t

    # -- a pristine process (forked before the first operation) that recomputes on request ---------------------------
    def start_zygote(self):
        self.zygote = None
        if self.cfg.get('no_zygote'):
            return
        req_r, req_w = os.pipe()
        res_r, res_w = os.pipe()
        pid = os.fork()
        if pid == 0:
            try:
                os.close(req_w)
                os.close(res_r)
                f = os.fdopen(req_r, 'rb')
                while True:
                    line = f.readline()
                    if not line:
                        break
                    gpid = os.fork()
                    if gpid == 0:
                        code = 0
                        try:
                            recipe, kind, mi, ai = json.loads(line)
                            out = self.expected_inprocess(_tuplify(recipe), kind, mi, ai)
                            data = json.dumps(out, default=str).encode()
                            os.write(res_w, len(data).to_bytes(8, 'big') + data)
                        except BaseException:  # noqa: BLE001
                            code = 3
                        finally:
                            os._exit(code)
                    _, st = os.waitpid(gpid, 0)
                    if st != 0:
                        os.write(res_w, (0).to_bytes(8, 'big'))
            finally:
                os._exit(0)
        os.close(req_r)
        os.close(res_w)
        self.zygote = (pid, req_w, res_r)

    def pristine(self, recipe, kind, mi, ai):
        pid, req_w, res_r = self.zygote
        os.write(req_w, (json.dumps([recipe, kind, mi, ai]) + '\n').encode())

        def read_n(n):
            buf = b''
            while len(buf) < n:
                b = os.read(res_r, n - len(buf))
                if not b:
                    raise HarnessError('zygote closed the pipe')
                buf += b
            return buf

        n = int.from_bytes(read_n(8), 'big')
        if n == 0:
            self.stats.probe('pristine_process_failed')
            return None
        out = json.loads(read_n(n))
        return (out[0], out[1])

    def stop_zygote(self):
        if getattr(self, 'zygote', None):
            pid, req_w, res_r = self.zygote
            self.zygote = None
            for fd in (req_w, res_r):
                try:
                    os.close(fd)
                except OSError:
                    pass
            try:
                os.waitpid(pid, 0)
            except ChildProcessError:
                pass

    def live_count(self):
        return sum(1 for e in self.entries.values() if e.obj is not None)

    # -- ops ------------------------------------------------------------
    def op_create(self, op):
        if self.live_count() >= MAX_LIVE:
            self.trace.log(ev='CREATE', step=self.step, skipped='cap')
            return
        kind = op['kind']
        w = op['w'] % len(self.worlds)
        deps, maybe = [], []
        checkable = True
        if kind == 'metrics' and op.get('private'):
            key = (w, op.get('v', 0) % 2)
            self.private_traj(key[0], key[1], 0, fresh=False)
            recipe = ('metrics_p', key[0], key[1], self.private[key]['g'])
            obj = self.build(recipe, twin=False)
            kind = 'metrics'
        elif kind == 'metrics' and op.get('via') == 'api':
            recipe = (kind, w, op.get('v', 0))
            obj = self.world(w).traj_variant(op.get('v', 0)).metrics()
        elif kind in ('metrics', 'transitions'):
            recipe = (kind, w, op.get('v', 0))
            obj = self.build(recipe, twin=False)
        elif kind == 'part':
            par = self.entries.get(op.get('parent'))
            if par is None or par.obj is None or par.kind not in ('jumps', 'transitions') or par.recipe[0] == 'part':
                self.trace.log(ev='CREATE', step=self.step, skipped='no parent')
                return
            n = op.get('n', 2)
            try:
                parts = par.obj.split(n)
            except ValueError:
                self.trace.log(ev='CREATE', step=self.step, skipped='split failed')
                return
            i = op.get('i', 0) % len(parts)
            obj = parts[i]
            del parts
            recipe = ('part', par.recipe, n, i)
            kind = par.kind
            par.called.append('split')
        elif kind == 'jumps':
            base = self.entries.get(op.get('base'))
            if base is not None and base.obj is not None and base.kind == 'transitions':
                alt = op.get('conv') == 'alt'
                if base.recipe[0] == 'transitions':
                    recipe = ('jumps_c' if alt else 'jumps', base.recipe[1], base.recipe[2], op.get('mr', 0))
                else:
                    recipe = ('jumps_on_c' if alt else 'jumps_on', base.recipe, op.get('mr', 0))
                try:
                    if alt:
                        obj = self.twins.real['jumps'](base.obj, minimal_residence=op.get('mr', 0), conversion_method=alt_conversion)
                    elif op.get('via') == 'api':
                        obj = base.obj.jumps(minimal_residence=op.get('mr', 0))
                        base.called.append('jumps')
                    else:
                        obj = self.twins.real['jumps'](base.obj, minimal_residence=op.get('mr', 0))
                except ValueError:
                    self.trace.log(ev='CREATE', step=self.step, skipped='no jumps')
                    return
                deps = [base.name]
            else:
                recipe = ('jumps', w, 0, op.get('mr', 0))
                try:
                    obj = self.build(recipe, twin=False)
                except ValueError:
                    self.trace.log(ev='CREATE', step=self.step, skipped='no jumps')
                    return
        elif kind == 'collective':
            j = self.entries.get(op.get('jumps'))
            if j is None or j.obj is None or j.kind != 'jumps':
                self.trace.log(ev='CREATE', step=self.step, skipped='no jumps entry')
                return
            jw = self.root_world(j.recipe)
            if op.get('via') == 'direct':
                md = [0.5, 1.0, 2.0, 4.0][op.get('a', 0) % 4]
                recipe = ('collective', j.recipe, 'direct', md)
                obj = self.twins.real['collective'](jumps=j.obj, sites=self.world(jw).sites, lattice=self.world(jw).lattice, max_steps=4, max_dist=md)
                maybe = [j.name]
            else:
                ai = op.get('a', 0) % len(METHODS['jumps'][2][1])
                recipe = ('collective', j.recipe, 'query', ai)
                obj = self.call(j.obj, 'collective', METHODS['jumps'][2][1][ai])
                j.called.append('collective')
                maybe = [j.name]
                checkable = False  # it is a *value* held by Jumps.collective's cache
        else:
            raise HarnessError(kind)
        e = Entry(op['name'], kind, recipe, obj, op.get('client', 0), deps, maybe, checkable)
        self.entries[op['name']] = e
        self.stats.probe('created_' + kind)
        self.trace.log(ev='CREATE', step=self.step, name=op['name'], recipe=list(recipe))

    def _trace_gc(self, n_lines):
        """sys.settrace hook: run a full collection at the n-th line event inside gemdat/caching.py."""
        state = {'n': 0, 'done': False}

        def local(frame, event, arg):
            if event == 'line' and not state['done']:
                state['n'] += 1
                if state['n'] >= n_lines:
                    state['done'] = True
                    gc.collect()
                    self.stats.fault('gc_inside_call')
            return local

        def tracer(frame, event, arg):
            if event == 'call' and frame.f_code.co_filename.endswith('gemdat/caching.py'):
                return local
            return None

        return tracer

    def op_query(self, op, entry=None, relation=None):
        e = entry or self.entries.get(op['obj'])
        if e is None or e.obj is None:
            self.trace.log(ev='QUERY', step=self.step, skipped=True)
            return
        ms = self.methods[e.kind]
        n_known = len(METHODS[e.kind])
        mi = op['m'] % n_known
        if op.get('exact'):
            mi = op['m'] % len(ms)
        elif len(ms) > n_known and (self.step + op['m']) % 3 == 0:
            mi = n_known + (self.step % (len(ms) - n_known))
        method, variants = ms[mi]
        ai = op['a'] % len(variants)
        tracer = None
        if self.cfg.get('gc_inside_call') and (self.step % 3 == 0):
            tracer = self._trace_gc(1 + (self.step % 4))
        outcome = 'ok'
        val = None
        try:
            if tracer:
                sys.settrace(tracer)
            try:
                val = self.call(e.obj, method, variants[ai])
            finally:
                if tracer:
                    sys.settrace(None)
        except Exception as ex:  # noqa: BLE001
            outcome = 'exc'
            got = ('exc', type(ex).__name__)
        if outcome == 'ok':
            got = ('ok', fingerprint(e.kind, method, val))
        del val
        e.called.append(method)
        akey = (e.name, mi, ai)
        rel = relation or ('repeat' if akey in self.asked else 'first')
        self.asked.add(akey)
        self.stats.probe('q_' + e.kind + '.' + method)
        self.stats.state(e.kind, method, ai, rel, min(len(e.holders), 2))
        exp = self.expected(e.recipe, e.kind, mi, ai)
        self.oracle_checks += 1
        self.trace.log(ev='QUERY', step=self.step, name=e.name, method=method, a=ai, got=[got[0], coarse_hash(got[1]) if got[0] == 'ok' else got[1]])  # rel depends on the allocator: stats only
        sig = {'kind': e.kind, 'method': method}
        if not same(got, exp):
            if got[0] == 'exc' and exp[0] == 'ok':
                self.violation('wrapper_raised', f'{e.kind}.{method}{variants[ai]} on a live object raised {got[1]}; the uncached method returns normally', sig)
            if got[0] == 'ok' and exp[0] == 'exc':
                self.violation('stale_or_wrong_value', f'{e.kind}.{method}{variants[ai]} returned a value; the uncached method raises {exp[1]}', sig)
            if got[0] == 'exc':
                self.violation('wrapper_raised', f'{e.kind}.{method}{variants[ai]} raised {got[1]}; the uncached method raises {exp[1]}', sig)
            # whose value is it?
            owner = None
            for (recipe, m2, a2), t in self.truth.items():
                if same(t, got) and recipe[0] == e.kind and m2 == mi and recipe != e.recipe:
                    owner = recipe
                    break
            if owner is None:
                for (recipe, m2, a2), t in self.truth.items():
                    if same(t, got) and recipe == e.recipe and m2 == mi and a2 != ai:
                        self.violation('wrong_arguments_value', f'{e.kind}.{method}{variants[ai]} returned the value belonging to arguments {self.methods[e.kind][mi][1][a2]}', sig)
            if owner is not None:
                self.violation(
                    'leak_from_other_object',
                    f'{e.kind}.{method}{variants[ai]} on object {e.name} (recipe {e.recipe}) returned the value computed for another object (recipe {owner}); relation: {rel}',
                    sig,
                )
            self.violation('stale_or_wrong_value', f'{e.kind}.{method}{variants[ai]} on object {e.name} (recipe {e.recipe}) differs from the uncached recomputation; relation: {rel}', sig)
        # cached answers do not drift
        prev = self.first_fp.setdefault(akey, got)
        if not same(prev, got):
            self.violation('value_drift', f'{e.kind}.{method}{variants[ai]} on the same object returned two different values', sig)

    def op_drop(self, op):
        e = self.entries.get(op['obj'])
        if e is None or e.obj is None:
            self.trace.log(ev='DROP', step=self.step, skipped=True)
            return
        if op.get('client') == 'all':
            e.holders.clear()
        else:
            e.holders.discard(op.get('client'))
        released = False
        if not e.holders:
            e.dead_id = id(e.obj)
            e.obj = None
            released = True
        self.trace.log(ev='DROP', step=self.step, name=e.name, released=released)
        return released

    def model_alive(self, name, seen=None) -> str:
        """'alive' | 'dead' | 'unknown' according to the model (holders + documented attribute edges)."""
        seen = seen or set()
        if name in seen:
            return 'dead'
        seen.add(name)
        e = self.entries[name]
        if e.holders:
            return 'alive'
        res = 'dead'
        for o in self.entries.values():
            if name in o.deps and self.model_alive(o.name, seen) != 'dead':
                return 'alive'
            if name in o.maybe_deps and o.holders:
                res = 'unknown'
        return res

    def check_pinning(self, final=False):
        gc.collect()
        for name in sorted(self.entries, reverse=True):
            e = self.entries[name]
            if not e.checkable or e.holders:
                continue
            if e.wr() is None:
                continue
            if self.model_alive(name) != 'dead':
                continue
            self.oracle_checks += 1
            self.violation(
                'object_pinned',
                f'{e.kind} object {name} (recipe {e.recipe}) is still alive after every holder dropped it and a full gc.collect(); '
                f'cached methods called on it: {sorted(set(e.called))}',
                {'kind': e.kind},
            )
        self.oracle_checks += 1

    def op_gc(self, op):
        gen = op.get('gen', 2)
        gc.collect(gen)
        self.stats.fault(f'gc_step_{gen}')
        self.trace.log(ev='GC', step=self.step, gen=gen)
        if gen == 2:
            self.check_pinning()

    def op_share(self, op):
        e = self.entries.get(op['obj'])
        if e is None or e.obj is None:
            return
        e.holders.add(op['client'])
        self.trace.log(ev='SHARE', step=self.step, name=e.name, client=op['client'])

    def op_churn(self, op):
        junk = [[i, str(i), (i,)] for i in range(op['n'])]
        cyc = []
        cyc.append(cyc)
        del junk, cyc
        self.stats.fault('churn')
        self.trace.log(ev='CHURN', step=self.step, n=op['n'])

    def op_reuse(self, op):
        e = self.entries.get(op['obj'])
        if e is None or e.obj is None:
            self.trace.log(ev='REUSE_PROBE', step=self.step, skipped=True)
            return
        kind = e.kind
        if e.recipe[0] not in ('metrics', 'transitions', 'jumps'):  # (also skips jumps_c: custom conversion)
            self.trace.log(ev='REUSE_PROBE', step=self.step, skipped='derived object')
            return
        w2 = op['w'] % len(self.worlds)
        recipe = (kind, w2) + tuple(e.recipe[2:])
        if kind == 'jumps':
            recipe = ('jumps', w2, 0, e.recipe[3])
        dependents = any(e.name in o.deps or e.name in o.maybe_deps for o in self.entries.values() if o.wr() is not None)
        e.holders.clear()
        dead_id = id(e.obj)
        e.dead_id = dead_id
        e.obj = None
        if op.get('gc'):
            gc.collect()
        really_dead = e.wr() is None
        try:
            new = self.build(recipe, twin=False)
        except ValueError:
            self.trace.log(ev='REUSE_PROBE', step=self.step, skipped='no jumps')
            return
        hit = really_dead and id(new) == dead_id
        if not hit and really_dead:
            # keep allocating same-class objects for a bounded number of tries
            spare = []
            for _ in range(6):
                spare.append(new)
                new = self.build(recipe, twin=False)
                if id(new) == dead_id:
                    hit = True
                    break
            del spare
        if hit:
            self.stats.fault('addr_reuse')
            self.stats.probe('addr_reuse_hits')
        elif not really_dead and not dependents:
            self.stats.probe('reuse_probe_object_not_dead')
        ne = Entry(op['name'], kind, recipe, new, op.get('client', 0))
        self.entries[op['name']] = ne
        self.trace.log(ev='REUSE_PROBE', step=self.step, old=e.name, name=op['name'], recipe=list(recipe))
        if hit:
            self.stats.probe('dead_key_same_hash_lookups')
        self.op_query({'obj': op['name'], 'm': op['m'], 'a': op['a']}, relation='reused_address' if hit else 'after_drop')

    def op_concurrent(self, op):
        """Two caller threads ask the same question of two different objects; thread B runs entirely inside the window in which
        thread A is computing its (uncached) answer.  The scheduler owns the interleaving: A is parked at the first line of the
        wrapped function, B runs to completion (or until it blocks), then A is released."""
        import threading

        ea, eb = self.entries.get(op['a_obj']), self.entries.get(op['b_obj'])
        if ea is None or eb is None or ea is eb or ea.obj is None or eb.obj is None or ea.kind != eb.kind:
            return self.trace.log(ev='CONCURRENT', step=self.step, skipped='objects')
        if self.root_world(ea.recipe) % len(self.worlds) == self.root_world(eb.recipe) % len(self.worlds):
            # objects of one world share a Trajectory, which is not thread-safe by itself (in-place representation flips)
            return self.trace.log(ev='CONCURRENT', step=self.step, skipped='same world')
        ms = METHODS[ea.kind]
        mi = op['m'] % len(ms)
        method, variants = ms[mi]
        ai = op['a'] % len(variants)
        wrapped = getattr(getattr(type(ea.obj), method, None), '__wrapped__', None)
        if wrapped is None or variants[ai][0] == 'property':
            return self.trace.log(ev='CONCURRENT', step=self.step, skipped='not a decorated method')
        code = wrapped.__code__
        entered, release = threading.Event(), threading.Event()
        out = {}

        def run_a():
            def tracer(frame, event, arg):
                if event == 'call' and frame.f_code is code and not entered.is_set():
                    entered.set()
                    release.wait(20)
                return None

            sys.settrace(tracer)
            try:
                out['a'] = ('ok', fingerprint(ea.kind, method, self.call(ea.obj, method, variants[ai])))
            except Exception as ex:  # noqa: BLE001
                out['a'] = ('exc', type(ex).__name__)
            finally:
                sys.settrace(None)
                entered.set()

        def run_b():
            try:
                out['b'] = ('ok', fingerprint(eb.kind, method, self.call(eb.obj, method, variants[ai])))
            except Exception as ex:  # noqa: BLE001
                out['b'] = ('exc', type(ex).__name__)

        ta, tb = threading.Thread(target=run_a, name='sim-client-A'), threading.Thread(target=run_b, name='sim-client-B')
        ta.start()
        entered.wait(20)
        overlapped = not out.get('a')
        tb.start()
        tb.join(3.0)
        blocked = tb.is_alive()
        release.set()
        ta.join(60)
        tb.join(60)
        if ta.is_alive() or tb.is_alive():
            raise HarnessError('concurrent callers did not finish')
        self.stats.fault('concurrent_call_overlap' if overlapped else 'concurrent_call_no_overlap')
        if blocked:
            self.stats.probe('concurrent_second_caller_waited_for_first')
        ea.called.append(method)
        eb.called.append(method)
        self.trace.log(ev='CONCURRENT', step=self.step, a=ea.name, b=eb.name, method=method, arg=ai,
                       got_a=[out['a'][0], coarse_hash(out['a'][1]) if out['a'][0] == 'ok' else out['a'][1]],
                       got_b=[out['b'][0], coarse_hash(out['b'][1]) if out['b'][0] == 'ok' else out['b'][1]])
        for who, e in (('a', ea), ('b', eb)):
            exp = self.expected(e.recipe, e.kind, mi, ai)
            self.oracle_checks += 1
            if not same(out[who], exp):
                other = ea if e is eb else eb
                leaked = same(out[who], self.expected(other.recipe, other.kind, mi, ai))
                self.violation(
                    'leak_from_other_object' if leaked else 'stale_or_wrong_value',
                    f'two callers in parallel: {e.kind}.{method}{variants[ai]} on object {e.name} (recipe {e.recipe}) '
                    + ('returned the value of the object the other caller was computing at the same time' if leaked else 'differs from the uncached recomputation')
                    + f' (second caller {"had to wait for" if blocked else "ran inside the compute window of"} the first)',
                    {'kind': e.kind, 'method': method},
                )

    def op_clone(self, op):
        """copy.copy / copy.deepcopy / pickle round trip of an analysis object: the clone is another object with the same recipe."""
        import pickle

        e = self.entries.get(op['obj'])
        if e is None or e.obj is None or self.live_count() >= MAX_LIVE:
            return self.trace.log(ev='CLONE', step=self.step, skipped=True)
        how = op.get('how', 'copy')
        try:
            if how == 'copy':
                new = copy.copy(e.obj)
            elif how == 'deepcopy':
                new = copy.deepcopy(e.obj)
            else:
                new = pickle.loads(pickle.dumps(e.obj))
        except Exception as ex:  # noqa: BLE001  (whether these objects can be pickled at all is not C20's business)
            return self.trace.log(ev='CLONE', step=self.step, skipped=type(ex).__name__)
        deps = list(e.deps) if how == 'copy' else []
        self.entries[op['name']] = Entry(op['name'], e.kind, e.recipe, new, op.get('client', 0), deps, list(e.maybe_deps) if (how == 'copy' or e.kind == 'collective') else [],
                                         checkable=e.kind != 'collective')
        self.stats.fault('clone_' + how)
        self.trace.log(ev='CLONE', step=self.step, src=e.name, name=op['name'], how=how)

    def op_from_worker(self, op):
        """An analysis object built *and queried* in a forked worker comes back pickled (as from a process pool); the parent goes on
        using it next to its own objects.  Per-process bookkeeping that travels inside the pickle must not make the two kinds meet."""
        import pickle

        if self.live_count() >= MAX_LIVE:
            return self.trace.log(ev='FROM_WORKER', step=self.step, skipped='cap')
        kind = op['kind']
        w = op['w'] % len(self.worlds)
        recipe = (kind, w, 0) if kind in ('metrics', 'transitions') else ('jumps', w, 0, 0)
        ms = METHODS[kind]
        mi = op['m'] % DECORATED[kind]
        method, variants = ms[mi]
        r_fd, w_fd = os.pipe()
        pid = os.fork()
        if pid == 0:
            code = 0
            try:
                os.close(r_fd)
                objs = [self.build(recipe, twin=False) for _ in range(1 + op.get('extra', 0) % 3)]  # a worker handles a few objects
                for o in objs:
                    try:
                        self.call(o, method, variants[0])
                    except Exception:  # noqa: BLE001
                        pass
                data = pickle.dumps(objs[-1])
                os.write(w_fd, len(data).to_bytes(8, 'big'))
                mv = memoryview(data)
                while mv:
                    n = os.write(w_fd, mv)
                    mv = mv[n:]
            except BaseException:  # noqa: BLE001
                code = 3
            finally:
                os._exit(code)
        os.close(w_fd)
        buf = b''
        while True:
            b = os.read(r_fd, 1 << 16)
            if not b:
                break
            buf += b
        os.close(r_fd)
        _, st = os.waitpid(pid, 0)
        if st != 0 or len(buf) < 8:
            return self.trace.log(ev='FROM_WORKER', step=self.step, skipped='worker failed (objects may not be picklable)')
        try:
            obj = pickle.loads(buf[8:])
        except Exception as ex:  # noqa: BLE001
            return self.trace.log(ev='FROM_WORKER', step=self.step, skipped=type(ex).__name__)
        self.entries[op['name']] = Entry(op['name'], kind, recipe, obj, op.get('client', 0))
        self.stats.fault('object_from_worker_process')
        self.trace.log(ev='FROM_WORKER', step=self.step, name=op['name'], recipe=list(recipe), method=method)

    def op_grow(self, op):
        """The client extends its own trajectory in place and throws away the analyses of the shorter one; new analysis objects over
        the SAME trajectory object must see the grown data."""
        key = (op['w'] % len(self.worlds), op.get('v', 0) % 2)
        ent = self.private.get(key)
        if ent is None:
            return self.trace.log(ev='GROW', step=self.step, skipped=True)
        t = ent['traj']
        if len(t) > 400:
            return self.trace.log(ev='GROW', step=self.step, skipped='long')
        for e in self.entries.values():
            if e.recipe[0] == 'metrics_p' and tuple(e.recipe[1:3]) == key and e.obj is not None:
                e.holders.clear()
                e.dead_id = id(e.obj)
                e.obj = None
        t.extend(t[1:3])
        ent['g'] += 1
        self.stats.fault('trajectory_grown_in_place')
        self.trace.log(ev='GROW', step=self.step, w=key[0], v=key[1], g=ent['g'])

    def op_consume(self, op):
        e = self.entries.get(op['obj'])
        if e is None or e.obj is None or not CONSUMERS.get(e.kind):
            return self.trace.log(ev='CONSUME', step=self.step, skipped=True)
        name, kw = CONSUMERS[e.kind][op['which'] % len(CONSUMERS[e.kind])]
        outcome = 'ok'
        try:
            r = getattr(e.obj, name) if kw == 'property' else getattr(e.obj, name)(**kw)
            del r
        except Exception as ex:  # noqa: BLE001  (what the consumer returns is not C20's business)
            outcome = type(ex).__name__
        try:
            import matplotlib.pyplot as plt

            plt.close('all')
        except Exception:  # noqa: BLE001
            pass
        self.stats.fault('consumer_call')
        self.stats.probe('consume_' + name)
        self.trace.log(ev='CONSUME', step=self.step, name=e.name, what=name, outcome=outcome)
        # every answer this object gave before must be given again, unchanged (a consumer that edits a memoised array in place
        # shows up as drift / as a difference from the uncached recomputation)
        asked = sorted(k for k in self.asked if k[0] == e.name)
        for (_, mi, ai) in asked[:4]:
            self.op_query({'obj': e.name, 'm': mi, 'a': ai, 'exact': True}, relation='after_consumer')

    def op_flood(self, op):
        kind = op['kind']
        room = MAX_LIVE - self.live_count()
        n = min(op['n'], room)
        if n < 10:
            self.trace.log(ev='FLOOD', step=self.step, skipped='cap')
            return
        created = []
        for i in range(n):
            self.flood_serial += 1
            name = 100000 + self.flood_serial
            recipe = (kind, i % len(self.worlds), 3 + i // len(self.worlds))
            e = Entry(name, kind, recipe, self.build(recipe, twin=False), 0)
            self.entries[name] = e
            created.append(name)
        self.trace.log(ev='FLOOD', step=self.step, kind=kind, n=n)
        for name in created:
            self.op_query({'obj': name, 'm': op['m'], 'a': op['a']})
        if n > 128:
            self.stats.fault('evict')
        # the earliest keys have been evicted by now: ask them again, and a few of the latest (hits)
        for name in created[: op.get('requery', 5)] + created[-3:]:
            self.op_query({'obj': name, 'm': op['m'], 'a': op['a']}, relation='after_flood')
        self.stats.probe('max_live_objects_seen_%d' % (50 * (self.live_count() // 50)))
        if op.get('drop'):
            for name in created:
                self.op_drop({'obj': name, 'client': 'all'})
            self.check_pinning()

    # -- main --------------------------------------------------------------
    def run(self):
        self.worlds = []
        for p in self.sc['world']['worlds']:
            sw = p.get('share_sites_with')
            self.worlds.append(World(p, shared_sites=self.worlds[sw].sites if sw is not None and sw < len(self.worlds) else None))
        self.start_zygote()
        self.trace.log(ev='world', n=len(self.worlds))
        if sum(self.twins.n_decorated.values()) == 0:
            # no method exposes __wrapped__ (caching removed or implemented differently): the twin is then the class itself
            # evaluated on a fresh object, which is still an independent recomputation
            self.stats.probe('no_wrapped_attribute_anywhere')
        mode = self.cfg.get('gc_mode', 'manual')
        gc.collect()
        if mode == 'manual':
            gc.disable()
        elif mode == 'auto_tiny':
            gc.enable()
            gc.set_threshold(20, 3, 3)
        else:
            gc.enable()
        table = {'CREATE': self.op_create, 'QUERY': self.op_query, 'DROP': self.op_drop, 'GC': self.op_gc, 'SHARE': self.op_share,
                 'CHURN': self.op_churn, 'REUSE_PROBE': self.op_reuse, 'FLOOD': self.op_flood, 'CONCURRENT': self.op_concurrent, 'CONSUME': self.op_consume, 'CLONE': self.op_clone, 'FROM_WORKER': self.op_from_worker, 'GROW': self.op_grow}
        for i, op in enumerate(self.sc['ops']):
            self.step = i
            table[op['op']](op)
        # epilogue: every holder lets go; nothing the caches did may keep an analysis object alive
        self.step = len(self.sc['ops'])
        for e in self.entries.values():
            if e.obj is not None:
                e.holders.clear()
                e.obj = None
        self.check_pinning(final=True)
        self.collect_cache_stats()

    def collect_cache_stats(self):
        ev = 0
        for kind, cls in self.twins.real.items():
            for name, f in vars(cls).items():
                try:
                    ci = f.__closure__[0].cell_contents.cache_info()
                except Exception:  # noqa: BLE001
                    continue
                if ci.currsize >= (ci.maxsize or 1 << 30) and ci.misses > ci.currsize:
                    ev += ci.misses - ci.currsize
                self.stats.probe('cache_hits', ci.hits)
                self.stats.probe('cache_misses', ci.misses)
        if ev:
            self.stats.probe('evictions', ev)


def execute(scenario: dict, workdir: str, keep_events: bool = False) -> dict:
    run = Run(scenario, keep_events)
    violation = None
    try:
        run.run()
    except Violation as v:
        violation = v.to_json()
        run.trace.log(ev='VIOLATION', cls=v.cls, step=v.step)
    finally:
        sys.settrace(None)
        run.stop_zygote()
    st = run.stats
    res = {
        'digest': run.trace.digest(),
        'violation': violation,
        'stats': st.to_json(),
        'steps': run.trace.n,
        'oracle_checks': run.oracle_checks,
        'nontrivial': bool(st.faults) and run.oracle_checks > 1,
        'fault_free': False,
    }
    if keep_events:
        res['events'] = run.trace.events
    return res


def simplify(sc: dict):
    ops = sc['ops']
    for i, op in enumerate(ops):
        if op['op'] in ('QUERY', 'REUSE_PROBE') and op.get('a'):
            c = copy.deepcopy(sc)
            c['ops'][i]['a'] = 0
            yield c
        if op['op'] == 'FLOOD' and op['n'] > 130:
            c = copy.deepcopy(sc)
            c['ops'][i]['n'] = 130
            yield c
        if op['op'] == 'CREATE' and op.get('base') is not None:
            c = copy.deepcopy(sc)
            c['ops'][i].pop('base')
            yield c
        if op['op'] == 'CREATE' and (op.get('v') or op.get('mr')):
            c = copy.deepcopy(sc)
            c['ops'][i].pop('v', None)
            c['ops'][i].pop('mr', None)
            yield c
    cfg = sc['config']
    if cfg.get('gc_mode') != 'manual':
        c = copy.deepcopy(sc)
        c['config']['gc_mode'] = 'manual'
        yield c
    if cfg.get('gc_inside_call'):
        c = copy.deepcopy(sc)
        c['config']['gc_inside_call'] = False
        yield c
    nw = len(sc['world']['worlds'])
    if nw > 2:
        c = copy.deepcopy(sc)
        c['world']['worlds'] = c['world']['worlds'][: max(2, nw // 2)]
        yield c


# ---------------------------------------------------------------------------
# driver metadata

LEVEL = 'exploration'
BUDGET = {'quick': 60, 'thorough': 900}
RUN_TIMEOUT = 180
DET_SEEDS = {'quick': 8, 'thorough': 64}
RULE = (
    'Run i is generated from run_seed(i): swarm config (1-4 clients, GC mode manual/auto-tiny/auto, gc-inside-call, object kinds, argument '
    'spread), 2-12 distinguishable lattice-gas worlds, 10-120 ops CREATE/SHARE/QUERY/DROP/GC/CHURN/REUSE_PROBE/FLOOD on real TrajectoryMetrics, '
    'Transitions, Jumps and Collective objects. Every QUERY result is compared with an uncached twin (decorated methods replaced by '
    '__wrapped__, module globals re-pointed); after drops + gc.collect() the harness weakrefs must be dead. A run is non-trivial if at least one '
    'scheduler-controlled lifetime/GC event fired (gc step, gc inside a call, churn, provoked address reuse, eviction flood) and at least one '
    'oracle comparison was made; distinct = distinct sha256 digests of the canonical event log.'
)
STATE_MEASURE = 'distinct (kind, method, argument variant, cache relation in {first, repeat, after_drop, reused_address, after_flood}, holder count) tuples'
REAL_VS_STUB = {
    'real': ['gemdat.caching.weak_lru_cache and all decorated methods', 'TrajectoryMetrics/Transitions/Jumps/Collective instances',
             'CPython weakref, functools.lru_cache, refcounting, cyclic GC, small-object allocator'],
    'simulated': ['who holds references and when they are dropped (harness is the only strong holder)', 'GC timing (gc.disable + explicit steps, or tiny thresholds; gc inside the caching wrapper via sys.settrace)',
                  'address reuse is provoked (create-right-after-drop) and counted, not forced'],
    'stub': [],
}
ASSUMPTIONS = [
    'method.__wrapped__ is the uncached computation (named by the property); the twin classes re-point module globals so inner calls are uncached too',
    'worlds are pairwise distinguishable, so a value can be attributed to the object it was computed for',
    'address reuse depends on the CPython allocator; whether it happened is counted in probes and kept out of the digest',
    'memory retained by cached *values* of dead objects, caller mutation of returned arrays and thread safety are outside the property',
]
