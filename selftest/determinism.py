#!/venv/bin/python
"""Determinism self-test: N run seeds per engine, each executed
  (a) with 16 workers, (b) with 1..3 workers, (c) again with 16 workers,
  (d) in a fresh interpreter under PYTHONHASHSEED=0, (e) under PYTHONHASHSEED=4242,
and the digests of the event logs diffed.  Any mismatch is a harness defect.

  selftest/determinism.py [--n 256] [--props C15,C16,C20] [--seed 0]
"""
from __future__ import annotations

import argparse
import json
import os
import subprocess
import sys
import time

HERE = os.path.dirname(os.path.dirname(os.path.abspath(__file__)))


def digests(prop, n, env_extra, tier='quick'):
    env = dict(os.environ)
    env.update(env_extra)
    p = subprocess.run([sys.executable, os.path.join(HERE, 'run_check.py'), '--digests', prop, tier, str(n)], env=env, capture_output=True, text=True, timeout=7200)
    for line in p.stdout.splitlines():
        if line.startswith('DIGESTS '):
            return json.loads(line[8:])
    raise RuntimeError(p.stdout[-1000:] + p.stderr[-2000:])


def main():
    ap = argparse.ArgumentParser()
    ap.add_argument('--n', type=int, default=256)
    ap.add_argument('--props', default='C15,C16,C20')
    ap.add_argument('--seed', default='0')
    ap.add_argument('--out', default=os.path.join(HERE, 'selftest', 'determinism_result.json'))
    a = ap.parse_args()
    result = {}
    ok = True
    for prop in a.props.split(','):
        t0 = time.time()
        configs = {
            'w16': {'VERIF_WORKERS': '16', 'VERIF_SEED': a.seed},
            'w3': {'VERIF_WORKERS': '3', 'VERIF_SEED': a.seed},
            'w16_again': {'VERIF_WORKERS': '16', 'VERIF_SEED': a.seed},
            'hashseed0': {'VERIF_WORKERS': '16', 'VERIF_SEED': a.seed, 'PYTHONHASHSEED': '0'},
            'hashseed4242': {'VERIF_WORKERS': '8', 'VERIF_SEED': a.seed, 'PYTHONHASHSEED': '4242'},
        }
        got = {k: digests(prop, a.n, env) for k, env in configs.items()}
        base = got['w16']
        bad = {}
        for k, d in got.items():
            diff = [i for i in base if d.get(i) != base[i]]
            if diff:
                bad[k] = diff[:10]
        errors = [i for i, v in base.items() if len(v) != 64]
        result[prop] = {'seeds': len(base), 'configs': list(configs), 'mismatches': bad, 'non_digest_results': errors[:10], 'distinct_digests': len(set(base.values())),
                        'wall_s': round(time.time() - t0, 1)}
        if bad or errors:
            ok = False
        print(prop, json.dumps(result[prop]), flush=True)
    with open(a.out, 'w') as f:
        json.dump({'ok': ok, 'n': a.n, 'batch_seed': a.seed, 'result': result}, f, indent=1)
    print('DETERMINISM OK' if ok else 'DETERMINISM FAILED')
    return 0 if ok else 1


if __name__ == '__main__':
    sys.exit(main())
