#!/venv/bin/python
"""Sensitivity self-test: break each claimed property on purpose in a scratch copy of
/repo (outside /repo and /verif, removed afterwards) and require the *quick* check to
report a VIOLATION of the expected class; negative controls must stay silent.

  selftest/sensitivity.py [--only ID[,ID]] [--tests] [--budget S]

--tests additionally runs the repository's test suite against every mutant (all of
them must still pass the 66 baseline tests, otherwise the mutant is not 'realistic').
"""
from __future__ import annotations

import argparse
import json
import os
import re
import shutil
import subprocess
import sys
import tempfile
import time

HERE = os.path.dirname(os.path.dirname(os.path.abspath(__file__)))
REPO = '/repo'

M = []


def mutant(mid, prop, file, old, new, expect, note=''):
    M.append({'id': mid, 'prop': prop, 'file': file, 'old': old, 'new': new, 'expect': expect, 'note': note})


T = 'src/gemdat/trajectory.py'
# ---- C15 ---------------------------------------------------------------------------------
mutant('m15_positions_no_convert', 'C15', T,
       "        self.to_positions()\n        return self.coords\n",
       "        return self.coords\n", 'C15/', 'positions property forgets to convert')
mutant('m15_filter_raw_coords', 'C15', T, "new_coords = self.positions[:, idx]", "new_coords = self.coords[:, idx]", 'C15/',
       'filter reads raw coords (wrong while in displacement mode)')
mutant('m15_no_wrap', 'C15', T, "        coords = np.mod(self.coords, 1)\n", "        coords = np.array(self.coords)\n", 'C15/',
       'to_positions without wrapping into the cell')
mutant('m15_getitem_drops_metadata', 'C15', T, "new.metadata = self.metadata if hasattr(self, 'metadata') else {}", "new.metadata = {}", 'C15/metadata_changed',
       'slices lose metadata')
mutant('m15_split_overlap', 'C15', T, "subtrajectories = [self[start:stop] for start, stop in pairwise(interval)]",
       "subtrajectories = [self[start : stop + 1] for start, stop in pairwise(interval)]", 'C15/split', 'split parts overlap by one frame')
mutant('m15_filter_startswith', 'C15', T, "idx.append(sp.symbol in species)", "idx.append(any(sp.symbol.startswith(s) for s in species))", 'C15/',
       "filter('S') also selects Si")
mutant('m15_revert_F1', 'C15', T, "        coords[coords == 1] = 0\n", "", 'C15/query_outcome_depends_on_history', 'revert fix F1')
mutant('m15_revert_F4', 'C15', 'src/gemdat/transitions.py', "    traj_cart_coords = traj_frac_coords @ box_vectors\n",
       "    traj_cart_coords = lattice.get_cartesian_coords(traj_frac_coords)\n", 'C15/query_result_depends_on_history', 'revert (half of) fix F4')
mutant('m15_drift_mutates_source', 'C15', T, "            coords=self.displacements - drift,\n",
       "            coords=np.subtract(self.displacements, drift, out=self.coords),\n", 'C15/', 'drift correction computed in place in the source array')
mutant('m15_filter_shares_base', 'C15', T,
       "        return self.__class__(\n            species=new_species,\n            coords=new_coords,\n",
       "        new_coords[0] = np.round(new_coords[0], 6)\n        return self.__class__(\n            species=new_species,\n            coords=new_coords,\n", 'C15/positions_changed',
       'filter rounds the first frame (data altered by selection)')
mutant('n15_getitem_copies_metadata', 'C15', T, "new.metadata = self.metadata if hasattr(self, 'metadata') else {}", "new.metadata = dict(self.metadata) if hasattr(self, 'metadata') else {}", None,
       'NEGATIVE CONTROL: slices get their own copy of the metadata dict')
mutant('n15_split_other_boundaries', 'C15', T, "interval = np.linspace(0, len(self) - 1, n_parts + 1, dtype=int)", "interval = np.linspace(0, len(self), n_parts + 1, dtype=int)", None,
       'NEGATIVE CONTROL: other (still contiguous, chronological) split boundaries')
mutant('n15_positions_returns_copy', 'C15', T, "        self.to_positions()\n        return self.coords\n", "        self.to_positions()\n        return self.coords.copy()\n", None,
       'NEGATIVE CONTROL: positions returns a copy')
# ---- C16 ---------------------------------------------------------------------------------
mutant('m16_except_eof_only', 'C16', T, "            except Exception as e:\n                print(e)\n                print(f'Error reading from cache, reading {coords_file!r}')\n\n        if not constant_lattice:",
       "            except EOFError as e:\n                print(e)\n                print(f'Error reading from cache, reading {coords_file!r}')\n\n        if not constant_lattice:", 'C16/load_raised',
       'from_lammps only survives EOFError')
mutant('m16_except_unpickling_only', 'C16', T, "            except Exception as e:\n                print(e)\n                print(f'Error reading from cache, reading {xml_file!r}')",
       "            except (EOFError, pickle.UnpicklingError) as e:\n                print(e)\n                print(f'Error reading from cache, reading {xml_file!r}')", 'C16/load_raised',
       'from_vasprun survives only EOFError/UnpicklingError (torn tails raise others)')
mutant('m16_append_mode', 'C16', T, "        with open(cache, 'wb') as f:\n            pickle.dump(self, f)", "        with open(cache, 'ab') as f:\n            pickle.dump(self, f)", 'C16/',
       'cache opened in append mode: never heals')
mutant('m16_skip_rewrite_if_exists', 'C16', T, "        obj.to_positions()\n\n        if cache:\n            obj.to_cache(cache)\n\n        return obj\n\n    @classmethod\n    def from_gromacs",
       "        obj.to_positions()\n\n        if cache and not Path(cache).exists():\n            obj.to_cache(cache)\n\n        return obj\n\n    @classmethod\n    def from_gromacs", 'C16/no_complete_cache',
       'from_lammps does not rewrite an existing (broken) cache')
mutant('m16_key_drops_temperature', 'C16', T, "                'temperature': temperature,\n                'time_step': time_step,\n                'coords_format'", "                'time_step': time_step,\n                'coords_format'", 'C16/',
       'lammps cache key without temperature')
mutant('m16_key_drops_kwargs_values', 'C16', T, "hash_kwargs = {**kwargs, 'constant_lattice': constant_lattice}", "hash_kwargs = {**dict.fromkeys(kwargs), 'constant_lattice': constant_lattice}", 'C16/',
       'vasprun cache key uses only the kwargs names')
mutant('m16_revert_F2_type_mapping', 'C16', T, "                'type_mapping': type_mapping,\n", "", 'C16/', 'revert part of fix F2')
mutant('m16_dump_slice', 'C16', T, "            pickle.dump(self, f)", "            pickle.dump(self[:], f)", 'C16/', 'to_cache pickles a slice (loses representation, touches the object)')
mutant('m16_gromacs_except_oserror', 'C16', T, "            except Exception as e:\n                print(e)\n                print(f'Error reading from cache, reading {coords_file!r}')\n\n        utraj = mda.Universe",
       "            except (pickle.PickleError, EOFError, AttributeError, ImportError, IndexError, TypeError, ValueError) as e:\n                print(e)\n                print(f'Error reading from cache, reading {coords_file!r}')\n\n        utraj = mda.Universe", 'C16/load_raised',
       'from_gromacs does not survive I/O errors / other unpickling errors')
mutant('n16_atomic_write', 'C16', T, "        with open(cache, 'wb') as f:\n            pickle.dump(self, f)",
       "        import os\n        tmp = str(cache) + '.tmp'\n        with open(tmp, 'wb') as f:\n            pickle.dump(self, f)\n        os.replace(tmp, cache)", None,
       'NEGATIVE CONTROL: atomic write via temp file + rename must stay silent')
mutant('n16_header_format', 'C16', T, "        with open(cache, 'rb') as f:\n            obj = pickle.load(f)\n        return obj",
       "        with open(cache, 'rb') as f:\n            if f.read(9) != b'GEMDATv1\\n':\n                raise ValueError('not a gemdat cache file')\n            obj = pickle.load(f)\n        return obj", None,
       'placeholder')
M.pop()
M.append({'id': 'n16_header_format', 'prop': 'C16', 'file': T, 'multi': [
    ("        with open(cache, 'rb') as f:\n            obj = pickle.load(f)\n        return obj",
     "        with open(cache, 'rb') as f:\n            if f.read(9) != b'GEMDATv1\\n':\n                raise ValueError('not a gemdat cache file')\n            obj = pickle.load(f)\n        return obj"),
    ("        with open(cache, 'wb') as f:\n            pickle.dump(self, f)",
     "        with open(cache, 'wb') as f:\n            f.write(b'GEMDATv1\\n')\n            pickle.dump(self, f)"),
], 'old': None, 'new': None, 'expect': None, 'note': 'NEGATIVE CONTROL: another on-disk format (magic header + pickle) must stay silent'})
mutant('n16_cache_subdir', 'C16', T, "            cache = Path(xml_file).with_suffix(f'.xml.{hashid}.cache')\n",
       "            cache = Path(xml_file).parent / 'gemdat_cache' / f'{Path(xml_file).name}.{hashid}.pkl'\n            cache.parent.mkdir(exist_ok=True)\n", None,
       'NEGATIVE CONTROL: default vasprun caches kept in a sub-directory under another name must stay silent')
# ---- C20 ---------------------------------------------------------------------------------
C = 'src/gemdat/caching.py'
mutant('m20_strong_self', 'C20', C, "            return func(_self(), *args, **kwargs)", "            return func(_self, *args, **kwargs)", 'C20/', 'placeholder', )
M.pop()
mutant('m20_plain_lru_cache', 'C20', C,
       "            return func(_self(), *args, **kwargs)\n\n        @functools.wraps(func)\n        def inner(self, *args, **kwargs):\n            return _func(weakref.ref(self), *args, **kwargs)",
       "            return func(_self, *args, **kwargs)\n\n        @functools.wraps(func)\n        def inner(self, *args, **kwargs):\n            return _func(self, *args, **kwargs)", 'C20/object_pinned',
       'plain lru_cache keyed by self: pins every object')
mutant('m20_key_by_id', 'C20', C,
       "        @functools.lru_cache(maxsize, typed)\n        def _func(_self, *args, **kwargs):\n            return func(_self(), *args, **kwargs)\n\n        @functools.wraps(func)\n        def inner(self, *args, **kwargs):\n            return _func(weakref.ref(self), *args, **kwargs)",
       "        refs = {}\n\n        @functools.lru_cache(maxsize, typed)\n        def _func(_id, *args, **kwargs):\n            return func(refs[_id](), *args, **kwargs)\n\n        @functools.wraps(func)\n        def inner(self, *args, **kwargs):\n            refs[id(self)] = weakref.ref(self)\n            return _func(id(self), *args, **kwargs)", 'C20/',
       'cache keyed by id(self): stale value when an address is reused')
mutant('m20_key_ignores_args', 'C20', C,
       "        @functools.lru_cache(maxsize, typed)\n        def _func(_self, *args, **kwargs):\n            return func(_self(), *args, **kwargs)\n\n        @functools.wraps(func)\n        def inner(self, *args, **kwargs):\n            return _func(weakref.ref(self), *args, **kwargs)",
       "        pending = {}\n\n        @functools.lru_cache(maxsize, typed)\n        def _func(_self):\n            args, kwargs = pending['call']\n            return func(_self(), *args, **kwargs)\n\n        @functools.wraps(func)\n        def inner(self, *args, **kwargs):\n            pending['call'] = (args, kwargs)\n            return _func(weakref.ref(self))", 'C20/',
       'arguments are not part of the key')
mutant('m20_revert_F3', 'C20', 'src/gemdat/collective.py', "        self.jumps = weakref.proxy(jumps)\n", "        self.jumps = jumps\n", 'C20/object_pinned', 'revert fix F3')
mutant('m20_metrics_eq_by_len', 'C20', 'src/gemdat/metrics.py', "        self.trajectory = trajectory\n\n    @weak_lru_cache()\n    def speed",
       "        self.trajectory = trajectory\n\n    def __eq__(self, other):\n        return isinstance(other, TrajectoryMetrics) and len(self.trajectory) == len(other.trajectory)\n\n    def __hash__(self):\n        return len(self.trajectory)\n\n    @weak_lru_cache()\n    def speed", 'C20/',
       'content-based (too coarse) equality: two live objects share cache entries')
mutant('m20_kwargs_dropped_from_key', 'C20', C,
       "        @functools.lru_cache(maxsize, typed)\n        def _func(_self, *args, **kwargs):\n            return func(_self(), *args, **kwargs)\n\n        @functools.wraps(func)\n        def inner(self, *args, **kwargs):\n            return _func(weakref.ref(self), *args, **kwargs)",
       "        pending = {}\n\n        @functools.lru_cache(maxsize, typed)\n        def _func(_self, *args):\n            return func(_self(), *args, **pending['kw'])\n\n        @functools.wraps(func)\n        def inner(self, *args, **kwargs):\n            pending['kw'] = kwargs\n            return _func(weakref.ref(self), *args)", 'C20/',
       'keyword arguments are not part of the key')
mutant('n20_weakkeydict', 'C20', C,
       "        @functools.lru_cache(maxsize, typed)\n        def _func(_self, *args, **kwargs):\n            return func(_self(), *args, **kwargs)\n\n        @functools.wraps(func)\n        def inner(self, *args, **kwargs):\n            return _func(weakref.ref(self), *args, **kwargs)",
       "        caches = weakref.WeakKeyDictionary()\n\n        @functools.wraps(func)\n        def inner(self, *args, **kwargs):\n            store = caches.setdefault(self, {})\n            key = (args, tuple(sorted(kwargs.items())))\n            if key not in store:\n                store[key] = func(self, *args, **kwargs)\n            return store[key]", None,
       'NEGATIVE CONTROL: a correct per-object cache in a WeakKeyDictionary must stay silent')
mutant('n20_no_caching', 'C20', C, "    def wrapper(func):\n", "    def wrapper(func):\n        return func\n\n    def _unused(func):\n", None,
       'NEGATIVE CONTROL: caching removed altogether (no __wrapped__ anywhere) must stay silent')
mutant('n20_maxsize_8', 'C20', C, "def weak_lru_cache(maxsize=128, typed=False):", "def weak_lru_cache(maxsize=8, typed=True):", None, 'NEGATIVE CONTROL: smaller typed cache must stay silent')


def run(cmd, env=None, timeout=1800, cwd=None):
    return subprocess.run(cmd, env=env, capture_output=True, text=True, timeout=timeout, cwd=cwd)


def main():
    ap = argparse.ArgumentParser()
    ap.add_argument('--only', default='')
    ap.add_argument('--tests', action='store_true')
    ap.add_argument('--budget', default='25')
    ap.add_argument('--out', default=os.path.join(HERE, 'selftest', 'sensitivity_result.json'))
    a = ap.parse_args()
    only = {x for x in a.only.split(',') if x}
    results = []
    ok_all = True
    for m in M:
        if only and m['id'] not in only and m['prop'] not in only:
            continue
        scratch = tempfile.mkdtemp(prefix='gemdat_mut_', dir=os.environ.get('VERIF_SCRATCH', '/tmp'))
        try:
            shutil.copytree(os.path.join(REPO, 'src'), os.path.join(scratch, 'src'), ignore=shutil.ignore_patterns('__pycache__', '*.egg-info'))
            p = os.path.join(scratch, m['file'])
            s = open(p).read()
            if m.get('multi'):
                bad = [o for o, _ in m['multi'] if s.count(o) != 1]
                if not bad:
                    for o, nw in m['multi']:
                        s = s.replace(o, nw)
                    open(p, 'w').write(s)
                    m = dict(m, old='', new='')
                    s = None
            if s is not None and (m.get('multi') or s.count(m['old']) != 1):
                results.append({**{k: m[k] for k in ('id', 'prop')}, 'status': 'MUTATION-DOES-NOT-APPLY'})
                ok_all = False
                print(m['id'], 'MUTATION-DOES-NOT-APPLY', flush=True)
                continue
            if s is not None:
                open(p, 'w').write(s.replace(m['old'], m['new']))
            env = dict(os.environ)
            env.update({'VERIF_REPO_SRC': os.path.join(scratch, 'src'), 'VERIF_BUDGET_S': a.budget, 'VERIF_DET_SEEDS': '0',
                        'VERIF_TMP': os.path.join(scratch, 'tmp'), 'VERIF_SHRINK_WALL': '30', 'VERIF_NO_EVIDENCE': '1',
                        'VERIF_REPLAY_DIR': os.path.join(scratch, 'replays')})
            os.makedirs(env['VERIF_TMP'], exist_ok=True)
            t0 = time.time()
            r = run([sys.executable, os.path.join(HERE, 'run_check.py'), m['prop'], 'quick'], env=env)
            wall = time.time() - t0
            classes = re.findall(r'^  (C\d\d/\w+):', r.stdout, flags=re.M)
            viol = 'VIOLATION property=' in r.stdout
            if m['expect'] is None:
                good = r.returncode == 0 and not viol
            else:
                good = r.returncode == 1 and viol and any(c.startswith(m['expect']) for c in classes)
            tests = None
            if a.tests:
                shutil.copytree(os.path.join(REPO, 'tests'), os.path.join(scratch, 'tests'))
                for f in ('pyproject.toml',):
                    shutil.copy(os.path.join(REPO, f), scratch)
                tenv = dict(os.environ, PYTHONPATH=os.path.join(scratch, 'src'))
                tr = run([sys.executable, '-m', 'pytest', '-q', '-p', 'no:cacheprovider', '--timeout=900', '--continue-on-collection-errors', 'tests'], env=tenv, cwd=scratch)
                mm = re.search(r'(\d+) passed', tr.stdout)
                tests = int(mm.group(1)) if mm else 0
            res = {'id': m['id'], 'prop': m['prop'], 'note': m['note'], 'expect': m['expect'], 'exit': r.returncode, 'classes': sorted(set(classes)),
                   'status': 'CAUGHT' if (good and m['expect']) else 'SILENT-OK' if good else 'MISSED' if m['expect'] else 'FALSE-ALARM', 'wall_s': round(wall, 1),
                   'tests_passed': tests}
            if not good:
                ok_all = False
                res['stdout_tail'] = r.stdout[-1500:]
                res['stderr_tail'] = r.stderr[-500:]
            results.append(res)
            print(res['id'], res['status'], res['classes'], f"{wall:.0f}s", f"tests={tests}" if tests is not None else '', flush=True)
        finally:
            shutil.rmtree(scratch, ignore_errors=True)
    with open(a.out, 'w') as f:
        json.dump({'results': results, 'all_ok': ok_all}, f, indent=1)
    print('ALL OK' if ok_all else 'SOME FAILED')
    return 0 if ok_all else 1


if __name__ == '__main__':
    sys.exit(main())
