"""Check for change 3: plan/apply implementation of Trajectory.extend()."""
import sys
import warnings

import numpy as np
from pymatgen.core import Element, Lattice
from pymatgen.core.trajectory import Trajectory as PmgTrajectory
from gemdat import Trajectory

warnings.filterwarnings('ignore')
rng = np.random.default_rng(1503)
TOL = 1e-9
SPECIES = [Element('Li'), Element('Li'), Element('S'), Element('P')]


def circ(a, b):
    d = np.abs(np.asarray(a) - np.asarray(b))
    return np.minimum(d, np.abs(1 - d)).max() if d.size else 0.0


def min_image_diff(p):
    d = p - np.roll(p, 1, axis=0)
    d[0] = 0
    return d - np.around(d)


def walk(nf, n=4):
    start = rng.random((1, n, 3))
    steps = rng.normal(scale=0.05, size=(nf, n, 3))
    steps[0] = 0
    return start, steps, start + np.cumsum(steps, axis=0)


def make(nf, mode, lattice, cls=Trajectory, **extra):
    start, steps, pos = walk(nf)
    kw = dict(species=list(SPECIES), lattice=lattice, time_step=1e-15, **extra)
    if cls is Trajectory:
        kw['metadata'] = {'temperature': 300 + nf}
    if mode == 'disp':
        t = cls(coords=steps.copy(), coords_are_displacement=True, base_positions=start[0].copy(), **kw)
    elif mode == 'raw':
        t = cls(coords=pos.copy(), **kw)
    else:
        t = cls(coords=np.mod(pos, 1), **kw)
    return t, pos


lattices = [Lattice.cubic(1.0), Lattice.from_parameters(5.1, 6.2, 7.3, 80, 95, 112)]
modes = ['pos', 'raw', 'disp', 'pos+flip', 'disp+flip']


def build(nf, mode, lattice, **kw):
    t, pos = make(nf, mode.split('+')[0], lattice, **kw)
    if mode.endswith('flip'):
        t.displacements if not t.coords_are_displacement else t.positions
    return t, pos


count = 0
for lattice in lattices:
    for m1 in modes:
        for m2 in modes:
            for n1, n2 in ((1, 1), (5, 3), (2, 7)):
                a, pa = build(n1, m1, lattice)
                b, pb = build(n2, m2, lattice)
                meta_a, meta_b = a.metadata, dict(b.metadata)
                base_a = np.array(a.base_positions)
                ret = a.extend(b)
                assert ret is None
                expect = np.mod(np.concatenate([pa, pb]), 1)
                assert len(a) == n1 + n2 and a.positions.shape == (n1 + n2, 4, 3)
                assert circ(a.positions, expect) < TOL
                assert a.positions.min() >= 0 and a.positions.max() < 1
                assert a.species == SPECIES and a.time_step == 1e-15
                assert a.metadata is meta_a and np.array_equal(a.get_lattice().matrix, lattice.matrix)
                assert a.constant_lattice and a.site_properties is None and a.frame_properties is None
                assert circ(a.base_positions, base_a) < TOL
                assert np.abs(a.displacements - min_image_diff(expect)).max() < TOL
                assert circ(a.positions, expect) < TOL
                # the appended trajectory is unchanged
                assert len(b) == n2 and b.metadata == meta_b
                assert circ(b.positions, np.mod(pb, 1)) < TOL
                assert np.abs(b.displacements - min_image_diff(np.mod(pb, 1))).max() < TOL
                # ... and independent of the result
                a.positions[...] = 0.5
                assert circ(b.positions, np.mod(pb, 1)) < TOL
                # slices of an extended trajectory
                a2, pa2 = build(n1, m1, lattice)
                a2.extend(b)
                e2 = np.mod(np.concatenate([pa2, pb]), 1)
                assert circ(a2[n1 - 1:n1 + 2].positions, e2[n1 - 1:n1 + 2]) < TOL
                assert circ(a2.filter('Li').positions, e2[:, :2]) < TOL
                count += 1

# appending a trajectory to itself, repeatedly
for mode in modes:
    a, pa = build(4, mode, lattices[1])
    a.extend(a)
    a.extend(a)
    assert circ(a.positions, np.mod(np.concatenate([pa] * 4), 1)) < TOL

# plain pymatgen trajectories can be appended
a, pa = build(3, 'pos', lattices[0])
b, pb = make(4, 'disp', lattices[0], cls=PmgTrajectory)
a.extend(b)
assert circ(a.positions, np.mod(np.concatenate([pa, pb]), 1)) < TOL

# incompatible trajectories: ValueError and nothing happened
a, pa = build(4, 'pos+flip', lattices[0])
for bad in (
    Trajectory(species=[Element('Li')] * 4, coords=rng.random((2, 4, 3)), lattice=lattices[0], time_step=1e-15),
    Trajectory(species=list(SPECIES), coords=rng.random((2, 4, 3)), lattice=lattices[0], time_step=2e-15),
    Trajectory(species=list(SPECIES), coords=rng.random((2, 4, 3)), lattice=None, charge=0, time_step=1e-15),
    Trajectory(species=list(SPECIES), coords=rng.random((2, 4, 3)), lattice=lattices[0], time_step=1e-15,
               site_properties={'magmom': (1, 2, 3, 4)}),
):
    if isinstance(bad.site_properties, dict):
        bad.site_properties = ('not', 'valid')  # makes combining the site properties fail
    before_bad = bad.positions.copy()
    try:
        a.extend(bad)
    except ValueError:
        pass
    else:
        raise SystemExit('expected ValueError')
    assert len(a) == 4 and circ(a.positions, np.mod(pa, 1)) < TOL
    assert a.site_properties is None and a.frame_properties is None and a.constant_lattice
    assert np.array_equal(bad.positions, before_bad)

# site / frame properties and changing lattices are combined as pymatgen does
props = [
    dict(),
    dict(site_properties={'magmom': [1, 2, 3, 4]}),
    dict(frame_properties=None, site_properties=None),
]
for pa_kw in props:
    for pb_kw in props:
        for const_a in (True, False):
            for const_b in (True, False):
                seed = int(rng.integers(1 << 30))
                out = []
                for cls in (Trajectory, PmgTrajectory):
                    rng = np.random.default_rng(seed)
                    kws = []
                    for n, const, kw in ((3, const_a, pa_kw), (2, const_b, pb_kw)):
                        kw = dict(kw)
                        if 'site_properties' in kw and kw['site_properties'] and n == 2:
                            kw['site_properties'] = [{'magmom': [n, 0, 0, i]} for i in range(n)]
                        if 'frame_properties' not in kw:
                            kw['frame_properties'] = [{'energy': float(i)} for i in range(n)]
                        lat = lattices[1] if const else [Lattice.cubic(4 + 0.1 * i) for i in range(n)]
                        kws.append((n, lat, dict(kw, constant_lattice=const)))
                    x, _ = make(kws[0][0], 'pos', kws[0][1], cls=cls, **kws[0][2])
                    y, _ = make(kws[1][0], 'disp', kws[1][1], cls=cls, **kws[1][2])
                    x.extend(y)
                    out.append(x)
                g, p = out
                assert circ(g.positions, np.mod(p.coords, 1)) < TOL
                assert g.site_properties == p.site_properties
                assert g.frame_properties == p.frame_properties
                assert g.constant_lattice == p.constant_lattice
                assert np.array_equal(np.asarray(g.lattice), np.asarray(p.lattice))
                assert len(g) == len(p) == 5

print(f'OK ({count} mode combinations)')
sys.exit(0)
