"""Check for change 4: block-wise voxel counting in trajectory_to_volume."""
import sys
import warnings

import numpy as np
from pymatgen.core import Element, Lattice
import gemdat.volume
from gemdat import Trajectory
from gemdat.volume import trajectory_to_volume

warnings.filterwarnings('ignore')
rng = np.random.default_rng(1504)
TOL = 1e-9


def circ(a, b):
    d = np.abs(np.asarray(a) - np.asarray(b))
    return np.minimum(d, np.abs(1 - d)).max() if d.size else 0.0


def reference_volume(coords, lattice, resolution):
    """Historical algorithm: digitize + unique rows."""
    coords = coords.reshape(-1, 3)
    n = [int(1 + length // resolution) for length in lattice.lengths]
    bins = [np.linspace(0, 1, k)[1:] for k in n]
    dig = np.vstack([np.digitize(coords[:, i], bins=bins[i]) for i in range(3)]).T
    idx, counts = np.unique(dig, return_counts=True, axis=0)
    data = np.zeros((n[0] - 1, n[1] - 1, n[2] - 1), dtype=int)
    i, j, k = idx.T
    data[i, j, k] = counts
    return data


def make(nf, n, lattice, mode, on_edges=False):
    start = rng.random((1, n, 3))
    steps = rng.normal(scale=0.07, size=(nf, n, 3))
    steps[0] = 0
    pos = start + np.cumsum(steps, axis=0)
    if on_edges:
        # put many coordinates exactly on voxel boundaries
        k = int(1 + lattice.lengths[0] // 0.5)
        grid = np.linspace(0, 1, k)
        pos = rng.choice(grid[:-1], size=pos.shape) + rng.choice([0, 0, 1e-17, -1e-17, 1e-16], size=pos.shape)
        steps = None
    species = [Element('Li')] * n
    kw = dict(species=species, lattice=lattice, time_step=1e-15, metadata={'temperature': 300})
    if mode == 'disp' and steps is not None:
        return Trajectory(coords=steps, coords_are_displacement=True, base_positions=start[0], **kw), pos
    return Trajectory(coords=pos.copy(), **kw), pos


lattices = [
    Lattice.cubic(3.0),
    Lattice.from_parameters(5.1, 6.2, 7.3, 80, 95, 112),
    Lattice.hexagonal(4.0, 9.0),
    Lattice.orthorhombic(0.9, 2.0, 3.1),
]
count = 0
for block_size in (1, 7, 64, 1 << 18):
    gemdat.volume._VOXEL_BLOCK_SIZE = block_size  # ignored by versions without block-wise counting
    for lattice in lattices:
        for mode in ('pos', 'disp'):
            for on_edges in (False, True):
                for resolution in (0.2, 0.5, 0.31, 1.0):
                    nf, n = int(rng.integers(1, 30)), int(rng.integers(1, 9))
                    traj, pos = make(nf, n, lattice, mode, on_edges)
                    if rng.random() < 0.5:
                        traj.displacements
                    before = traj.positions.copy()
                    d_before = traj.displacements.copy()
                    if rng.random() < 0.5:
                        traj.positions
                    if min(lattice.lengths) < resolution:
                        # no voxel fits along the short axis
                        try:
                            trajectory_to_volume(traj, resolution=resolution)
                        except IndexError:
                            assert circ(traj.positions, before) < TOL
                            continue
                        raise SystemExit('expected IndexError')
                    vol = trajectory_to_volume(traj, resolution=resolution)
                    vol2 = traj.to_volume(resolution=resolution)
                    expect = reference_volume(traj.positions, lattice, resolution)
                    assert vol.data.shape == expect.shape and vol.data.dtype == expect.dtype
                    assert np.array_equal(vol.data, expect)
                    assert np.array_equal(vol2.data, expect)
                    assert vol.data.sum() == nf * n
                    assert vol.label == 'trajectory'
                    assert np.array_equal(vol.lattice.matrix, lattice.matrix)
                    assert all(vs >= resolution * (1 - 1e-12) for vs in vol.voxel_size)
                    # the volume does not alias the trajectory / later volumes
                    vol.data[...] = -1
                    assert np.array_equal(traj.to_volume(resolution=resolution).data, expect)
                    # the query left the trajectory alone
                    assert circ(traj.positions, before) < TOL
                    if on_edges:
                        # coordinates sit exactly on voxel faces here: do not switch
                        # modes, the rounding noise of a round trip decides the voxel
                        count += 1
                        continue
                    assert np.abs(traj.displacements - d_before).max() < TOL
                    assert circ(traj.positions, np.mod(pos, 1)) < TOL
                    assert np.array_equal(traj.to_volume(resolution=resolution).data, expect)
                    # volume of a part equals the sum over the parts
                    if nf >= 4:
                        parts = [traj[:nf // 2], traj[nf // 2:]]
                        total = sum(p.to_volume(resolution=resolution).data for p in parts)
                        assert np.array_equal(total, expect)
                    count += 1

# degenerate requests fail like before
traj, _ = make(3, 2, Lattice.cubic(1.0), 'pos')
for resolution, exc in ((1.5, IndexError), (0.0, (ZeroDivisionError, OverflowError, ValueError)), (-1.0, ValueError)):
    try:
        traj.to_volume(resolution=resolution)
    except exc:
        pass
    else:
        raise SystemExit(f'expected {exc} for resolution {resolution}')
try:
    traj.filter('Xx').to_volume()
except ValueError:
    pass
else:
    raise SystemExit('expected ValueError for a trajectory without atoms')

print(f'OK ({count} volumes)')
sys.exit(0)
