"""Implementation-agnostic C15 check: random histories against a numpy oracle."""
import copy
import pickle
import sys
import warnings
from itertools import pairwise

import numpy as np
from pymatgen.core import Element, Lattice, Species

from gemdat import Trajectory

warnings.filterwarnings('ignore')
TOL = 1e-9


def circ_close(a, b, tol=TOL):
    a = np.asarray(a, dtype=float)
    b = np.asarray(b, dtype=float)
    if a.shape != b.shape:
        return False
    d = np.abs(a - b)
    d = np.minimum(d, 1 - d)
    return bool(np.all(np.abs(d) <= tol))


class Model:
    """Oracle: wrapped positions + the invariants that must travel along."""

    def __init__(self, P, species, lattice, time_step, metadata):
        self.P = np.mod(np.asarray(P, dtype=float), 1)
        self.species = list(species)
        self.lattice = np.array(lattice, dtype=float)
        self.time_step = time_step
        self.metadata = metadata

    def check(self, t, where):
        assert type(t) is Trajectory, (where, type(t))
        pos = t.positions
        assert pos.shape == self.P.shape, (where, pos.shape, self.P.shape)
        assert np.all(pos >= 0) and np.all(pos < 1), (where, 'positions outside [0, 1)')
        assert circ_close(pos, self.P), (where, 'positions differ')
        assert not t.coords_are_displacement, where
        assert list(t.species) == self.species, (where, 'species')
        assert np.allclose(t.get_lattice().matrix, self.lattice, rtol=0, atol=1e-12), (where, 'lattice')
        assert np.allclose(np.asarray(t.lattice), self.lattice, rtol=0, atol=1e-12), (where, 'lattice attr')
        assert t.time_step == self.time_step, (where, 'time_step')
        assert sorted(t.metadata) == sorted(self.metadata), (where, 'metadata keys')
        for k, v in self.metadata.items():
            assert np.array_equal(np.asarray(t.metadata[k]), np.asarray(v)), (where, 'metadata', k)
        assert len(t) == len(self.P), where

    def disp(self):
        d = np.diff(self.P, axis=0, prepend=self.P[:1])
        return d - np.round(d)


def make(rng):
    kind = int(rng.integers(0, 3))
    if kind == 0:
        lat = Lattice.cubic(float(rng.uniform(2, 10)))
    elif kind == 1:
        lat = Lattice.from_parameters(*rng.uniform(3, 9, 3), *rng.uniform(65, 115, 3))
    else:
        lat = Lattice(rng.normal(size=(3, 3)) * 2 + np.eye(3) * 7)
    M, N = int(rng.integers(2, 16)), int(rng.integers(1, 8))
    names = [['Li', 'S', 'Si', 'P'][i] for i in rng.integers(0, 4, N)]
    cls = Species if rng.integers(0, 2) else Element
    species = [cls(n) for n in names]
    coords = rng.uniform(-1, 2, (N, 3)) + np.cumsum(rng.normal(scale=0.12, size=(M, N, 3)), axis=0)
    if rng.integers(0, 2):
        coords[int(rng.integers(0, M)), int(rng.integers(0, N)), int(rng.integers(0, 3))] = rng.choice(
            [0.0, 1.0, -1e-17, 2.0, -1.0]
        )
    metadata = {'temperature': 300.0, 'series': rng.normal(size=M), 'per_atom': rng.normal(size=N)}
    t = Trajectory(species=species, coords=coords.copy(), lattice=lat, time_step=1e-15, metadata=metadata)
    return t, Model(coords, species, lat.matrix, 1e-15, metadata)


def read_only_queries(rng, t, m, where):
    q = int(rng.integers(0, 12))
    if q == 0:
        d = t.displacements
        assert np.allclose(d, m.disp(), rtol=0, atol=TOL), (where, 'displacements')
        assert t.coords_are_displacement
    elif q == 1:
        t.to_displacements()
    elif q == 2:
        t.to_positions()
    elif q == 3:
        dist = t.distances_from_base_position()
        cart = np.cumsum(m.disp(), axis=0) @ m.lattice
        assert np.allclose(dist, np.linalg.norm(cart, axis=2).T, rtol=1e-9, atol=1e-9), (where, 'distances')
    elif q == 4:
        cd = t.cumulative_displacements
        assert np.allclose(cd, np.cumsum(m.disp(), axis=0), rtol=0, atol=TOL), (where, 'cumdisp')
    elif q == 5:
        dr = t.drift()
        assert np.allclose(dr, m.disp().mean(axis=1)[:, None, :], rtol=0, atol=TOL), (where, 'drift')
    elif q == 6:
        msd = t.mean_squared_displacement()
        assert msd.shape == (m.P.shape[1], m.P.shape[0])
    elif q == 7:
        mt = t.metrics()
        mt.speed()
        mt.tracer_diffusivity()
        mt.particle_density()
    elif q == 8:
        vol = t.to_volume(resolution=0.8)
        assert int(np.asarray(vol.data).sum()) == m.P.shape[0] * m.P.shape[1], (where, 'volume count')
    elif q == 9:
        i = int(rng.integers(0, len(m.P)))
        s = t[i]
        assert circ_close(s.frac_coords, m.P[i]), (where, 'structure')
    elif q == 10:
        t.center_of_mass()
        t.apply_drift_correction()
    elif q == 11:
        repr(t)
        t.total_time
        t.get_lattice()


def run_history(seed, n_ops=25):
    rng = np.random.default_rng(seed)
    pool = [make(rng)]
    for opno in range(n_ops):
        where = (seed, opno)
        t, m = pool[int(rng.integers(0, len(pool)))]
        for _ in range(int(rng.integers(0, 3))):
            read_only_queries(rng, t, m, where)
        op = int(rng.integers(0, 8))
        if op == 0:  # filter
            sel = sorted({s.symbol for s in m.species})
            sel = [sel[i] for i in rng.integers(0, len(sel), int(rng.integers(1, 3)))]
            mask = [s.symbol in sel for s in m.species]
            new = t.filter(sel if len(sel) > 1 else sel[0])
            nm = Model(m.P[:, mask], [s for s, k in zip(m.species, mask) if k], m.lattice, m.time_step, m.metadata)
            nm.check(new, where + ('filter',))
            pool.append((new, nm))
        elif op == 1:  # slice
            M = len(m.P)
            while True:
                sl = slice(*[None if rng.integers(0, 3) == 0 else int(rng.integers(-M - 2, M + 3)) for _ in range(2)],
                           [None, 1, 2, 3, -1, -2][int(rng.integers(0, 6))])
                if len(range(*sl.indices(M))) > 0:
                    break
            new = t[sl]
            nm = Model(m.P[sl], m.species, m.lattice, m.time_step, m.metadata)
            nm.check(new, where + ('slice', sl))
            pool.append((new, nm))
        elif op == 2:  # index list
            M = len(m.P)
            idx = [int(i) for i in rng.integers(-M, M, int(rng.integers(1, 5)))]
            new = t[idx if rng.integers(0, 2) else np.array(idx)]
            nm = Model(m.P[idx], m.species, m.lattice, m.time_step, m.metadata)
            nm.check(new, where + ('list', idx))
            pool.append((new, nm))
        elif op == 3:  # split
            M = len(m.P)
            n_parts = int(rng.integers(1, max(2, M - 1)))
            eq = bool(rng.integers(0, 2))
            edges = np.linspace(0, M - 1, n_parts + 1, dtype=int)
            if any(b <= a for a, b in pairwise(edges)):
                continue
            parts = t.split(n_parts, equal_parts=eq)
            assert isinstance(parts, list) and len(parts) == n_parts
            size = min(b - a for a, b in pairwise(edges))
            for part, (a, b) in zip(parts, pairwise(edges)):
                stop = a + size if eq else b
                nm = Model(m.P[a:stop], m.species, m.lattice, m.time_step, m.metadata)
                nm.check(part, where + ('split', n_parts, eq))
            pool.append((parts[0], Model(m.P[edges[0]:(edges[0] + size if eq else edges[1])], m.species, m.lattice, m.time_step, m.metadata)))
        elif op == 4:  # extend
            how = int(rng.integers(0, 3))
            if how == 0:
                other, om = t, m
            elif how == 1:
                other, om = copy.deepcopy(t), Model(m.P, m.species, m.lattice, m.time_step, m.metadata)
            else:
                other = t[::-1]
                om = Model(m.P[::-1], m.species, m.lattice, m.time_step, m.metadata)
            if rng.integers(0, 2):
                other.to_displacements()
            P_other = om.P.copy()
            t.extend(other)
            m.P = np.concatenate([m.P, P_other])
            m.check(t, where + ('extend', how))
            if other is not t:
                om.check(other, where + ('extend-other',))
        elif op == 5:  # pickle / deepcopy
            new = pickle.loads(pickle.dumps(t)) if rng.integers(0, 2) else copy.deepcopy(t)
            nm = Model(m.P, m.species, m.lattice, m.time_step, m.metadata)
            nm.check(new, where + ('copy',))
            pool.append((new, nm))
        elif op == 6:
            pool.append(make(rng))
        # everything in the pool must still match its oracle
        for tt, mm in pool:
            if rng.integers(0, 3) == 0:
                mm.check(tt, where + ('pool',))
        if len(pool) > 6:
            pool.pop(int(rng.integers(0, len(pool))))
    for tt, mm in pool:
        mm.check(tt, (seed, 'final'))


def run_common(n=120):
    for seed in range(n):
        run_history(seed)
    print(f'common: {n} random histories OK')


# ---------------------------------------------------------------- change 1
def ref_to_positions(coords, base, is_disp):
    """Literal transcription of the previous implementation."""
    if is_disp:
        coords = base + np.cumsum(coords, axis=0)
    out = np.mod(coords, 1)
    out[out == 1] = 0
    return out


def ref_to_displacements(coords):
    d = np.subtract(coords, np.roll(coords, 1, axis=0))
    d[0] = np.zeros(np.shape(coords[0]))
    return np.subtract(d, np.around(d))


def specific():
    from gemdat import _coordmodes as cm

    rng = np.random.default_rng(7)
    specials = np.array([0.0, -0.0, 1.0, -1.0, 2.0, -1e-17, 1 - 1e-16, 1e-300, -1e-300, 0.5, -0.5, 1.5,
                         -2.5, 123456.789, -98765.4321, np.nextafter(1, 0), np.nextafter(0, -1)])
    for forced in (False, True):
        if forced:
            cm.PARALLEL_MIN_ELEMENTS, cm.MIN_BLOCK_ATOMS, cm.MAX_WORKERS = 0, 1, 4
        for dtype in (np.float64, np.float32):
            for trial in range(40):
                M, N = int(rng.integers(1, 30)), int(rng.integers(1, 40))
                coords = (rng.uniform(-3, 3, (M, N, 3)) * rng.choice([1, 1e-3, 1e3])).astype(dtype)
                k = int(rng.integers(0, 20))
                coords.reshape(-1)[rng.integers(0, coords.size, k)] = rng.choice(specials, k).astype(dtype)
                lat = Lattice(rng.normal(size=(3, 3)) + 5 * np.eye(3))
                t = Trajectory(species=['Li'] * N, coords=coords.copy(), lattice=lat, time_step=1e-15)
                p = t.positions
                want = ref_to_positions(coords, None, False)
                assert p.dtype == want.dtype and np.array_equal(p, want), 'wrap differs'
                assert p is not coords
                d = t.displacements
                want_d = ref_to_displacements(want)
                assert d.dtype == want_d.dtype and np.array_equal(d, want_d), 'displacements differ'
                assert t.coords_are_displacement is True and t.mode is cm.CoordMode.DISPLACEMENTS
                assert t.displacements is d  # no-op when already there
                p2 = t.positions
                want_p2 = ref_to_positions(want_d, t.base_positions, True)
                assert np.array_equal(p2, want_p2), 'integration differs'
                assert t.coords_are_displacement is False
    # integer coordinates keep the generic path
    t = Trajectory(species=['Li'], coords=np.array([[[0, 1, 2]], [[3, -1, 0]]]), lattice=np.eye(3), time_step=1)
    assert np.array_equal(t.positions, np.zeros((2, 1, 3))) and t.positions.dtype.kind == 'i'
    assert np.array_equal(t.displacements, np.zeros((2, 1, 3)))
    # displacement mode without base positions: positions unavailable, state untouched
    t = Trajectory(species=['Li'], coords=np.zeros((3, 1, 3)), lattice=np.eye(3), time_step=1,
                   coords_are_displacement=True)
    try:
        t.positions
    except TypeError:
        pass
    else:
        raise AssertionError('expected TypeError')
    assert t.coords_are_displacement is True and np.array_equal(t.coords, np.zeros((3, 1, 3)))
    # pickle layout is the historical one, and historical state loads
    t = Trajectory(species=['Li', 'S'], coords=rng.uniform(size=(4, 2, 3)), lattice=np.eye(3) * 3, time_step=1e-15,
                   metadata={'temperature': 1})
    t.to_displacements()
    state = t.__getstate__()
    assert state['coords_are_displacement'] is True and '_mode' not in state
    legacy = dict(state)
    new = Trajectory.__new__(Trajectory)
    new.__setstate__(legacy)
    assert new.coords_are_displacement is True
    ref = copy.deepcopy(t)
    assert np.array_equal(new.positions, ref.positions)
    back = pickle.loads(pickle.dumps(t))
    assert back.coords_are_displacement is True and np.array_equal(back.coords, t.coords)
    # flag stays writable, like the plain attribute it used to be
    back.coords_are_displacement = False
    assert back.mode is cm.CoordMode.POSITIONS
    print('specific: OK')


if __name__ == '__main__':
    run_common(80)
    specific()
    cm = sys.modules['gemdat._coordmodes']
    run_common(40)  # once more with every conversion forced through the thread pool
    print('ALL OK')
