"""Implementation-agnostic C15 check: random histories against a numpy oracle."""
import copy
import pickle
import sys
import warnings
from itertools import pairwise

import numpy as np
from pymatgen.core import Element, Lattice, Species

from gemdat import Trajectory

warnings.filterwarnings('ignore')
TOL = 1e-9


def circ_close(a, b, tol=TOL):
    a = np.asarray(a, dtype=float)
    b = np.asarray(b, dtype=float)
    if a.shape != b.shape:
        return False
    d = np.abs(a - b)
    d = np.minimum(d, 1 - d)
    return bool(np.all(np.abs(d) <= tol))


class Model:
    """Oracle: wrapped positions + the invariants that must travel along."""

    def __init__(self, P, species, lattice, time_step, metadata):
        self.P = np.mod(np.asarray(P, dtype=float), 1)
        self.species = list(species)
        self.lattice = np.array(lattice, dtype=float)
        self.time_step = time_step
        self.metadata = metadata

    def check(self, t, where):
        assert type(t) is Trajectory, (where, type(t))
        pos = t.positions
        assert pos.shape == self.P.shape, (where, pos.shape, self.P.shape)
        assert np.all(pos >= 0) and np.all(pos < 1), (where, 'positions outside [0, 1)')
        assert circ_close(pos, self.P), (where, 'positions differ')
        assert not t.coords_are_displacement, where
        assert list(t.species) == self.species, (where, 'species')
        assert np.allclose(t.get_lattice().matrix, self.lattice, rtol=0, atol=1e-12), (where, 'lattice')
        assert np.allclose(np.asarray(t.lattice), self.lattice, rtol=0, atol=1e-12), (where, 'lattice attr')
        assert t.time_step == self.time_step, (where, 'time_step')
        assert sorted(t.metadata) == sorted(self.metadata), (where, 'metadata keys')
        for k, v in self.metadata.items():
            assert np.array_equal(np.asarray(t.metadata[k]), np.asarray(v)), (where, 'metadata', k)
        assert len(t) == len(self.P), where

    def disp(self):
        d = np.diff(self.P, axis=0, prepend=self.P[:1])
        return d - np.round(d)


def make(rng):
    kind = int(rng.integers(0, 3))
    if kind == 0:
        lat = Lattice.cubic(float(rng.uniform(2, 10)))
    elif kind == 1:
        lat = Lattice.from_parameters(*rng.uniform(3, 9, 3), *rng.uniform(65, 115, 3))
    else:
        lat = Lattice(rng.normal(size=(3, 3)) * 2 + np.eye(3) * 7)
    M, N = int(rng.integers(2, 16)), int(rng.integers(1, 8))
    names = [['Li', 'S', 'Si', 'P'][i] for i in rng.integers(0, 4, N)]
    cls = Species if rng.integers(0, 2) else Element
    species = [cls(n) for n in names]
    coords = rng.uniform(-1, 2, (N, 3)) + np.cumsum(rng.normal(scale=0.12, size=(M, N, 3)), axis=0)
    if rng.integers(0, 2):
        coords[int(rng.integers(0, M)), int(rng.integers(0, N)), int(rng.integers(0, 3))] = rng.choice(
            [0.0, 1.0, -1e-17, 2.0, -1.0]
        )
    metadata = {'temperature': 300.0, 'series': rng.normal(size=M), 'per_atom': rng.normal(size=N)}
    t = Trajectory(species=species, coords=coords.copy(), lattice=lat, time_step=1e-15, metadata=metadata)
    return t, Model(coords, species, lat.matrix, 1e-15, metadata)


def read_only_queries(rng, t, m, where):
    q = int(rng.integers(0, 12))
    if q == 0:
        d = t.displacements
        assert np.allclose(d, m.disp(), rtol=0, atol=TOL), (where, 'displacements')
        assert t.coords_are_displacement
    elif q == 1:
        t.to_displacements()
    elif q == 2:
        t.to_positions()
    elif q == 3:
        dist = t.distances_from_base_position()
        cart = np.cumsum(m.disp(), axis=0) @ m.lattice
        assert np.allclose(dist, np.linalg.norm(cart, axis=2).T, rtol=1e-9, atol=1e-9), (where, 'distances')
    elif q == 4:
        cd = t.cumulative_displacements
        assert np.allclose(cd, np.cumsum(m.disp(), axis=0), rtol=0, atol=TOL), (where, 'cumdisp')
    elif q == 5:
        dr = t.drift()
        assert np.allclose(dr, m.disp().mean(axis=1)[:, None, :], rtol=0, atol=TOL), (where, 'drift')
    elif q == 6:
        msd = t.mean_squared_displacement()
        assert msd.shape == (m.P.shape[1], m.P.shape[0])
    elif q == 7:
        mt = t.metrics()
        mt.speed()
        mt.tracer_diffusivity()
        mt.particle_density()
    elif q == 8:
        vol = t.to_volume(resolution=0.8)
        assert int(np.asarray(vol.data).sum()) == m.P.shape[0] * m.P.shape[1], (where, 'volume count')
    elif q == 9:
        i = int(rng.integers(0, len(m.P)))
        s = t[i]
        assert circ_close(s.frac_coords, m.P[i]), (where, 'structure')
    elif q == 10:
        t.center_of_mass()
        t.apply_drift_correction()
    elif q == 11:
        repr(t)
        t.total_time
        t.get_lattice()


def run_history(seed, n_ops=25):
    rng = np.random.default_rng(seed)
    pool = [make(rng)]
    for opno in range(n_ops):
        where = (seed, opno)
        t, m = pool[int(rng.integers(0, len(pool)))]
        for _ in range(int(rng.integers(0, 3))):
            read_only_queries(rng, t, m, where)
        op = int(rng.integers(0, 8))
        if op == 0:  # filter
            sel = sorted({s.symbol for s in m.species})
            sel = [sel[i] for i in rng.integers(0, len(sel), int(rng.integers(1, 3)))]
            mask = [s.symbol in sel for s in m.species]
            new = t.filter(sel if len(sel) > 1 else sel[0])
            nm = Model(m.P[:, mask], [s for s, k in zip(m.species, mask) if k], m.lattice, m.time_step, m.metadata)
            nm.check(new, where + ('filter',))
            pool.append((new, nm))
        elif op == 1:  # slice
            M = len(m.P)
            while True:
                sl = slice(*[None if rng.integers(0, 3) == 0 else int(rng.integers(-M - 2, M + 3)) for _ in range(2)],
                           [None, 1, 2, 3, -1, -2][int(rng.integers(0, 6))])
                if len(range(*sl.indices(M))) > 0:
                    break
            new = t[sl]
            nm = Model(m.P[sl], m.species, m.lattice, m.time_step, m.metadata)
            nm.check(new, where + ('slice', sl))
            pool.append((new, nm))
        elif op == 2:  # index list
            M = len(m.P)
            idx = [int(i) for i in rng.integers(-M, M, int(rng.integers(1, 5)))]
            new = t[idx if rng.integers(0, 2) else np.array(idx)]
            nm = Model(m.P[idx], m.species, m.lattice, m.time_step, m.metadata)
            nm.check(new, where + ('list', idx))
            pool.append((new, nm))
        elif op == 3:  # split
            M = len(m.P)
            n_parts = int(rng.integers(1, max(2, M - 1)))
            eq = bool(rng.integers(0, 2))
            edges = np.linspace(0, M - 1, n_parts + 1, dtype=int)
            if any(b <= a for a, b in pairwise(edges)):
                continue
            parts = t.split(n_parts, equal_parts=eq)
            assert isinstance(parts, list) and len(parts) == n_parts
            size = min(b - a for a, b in pairwise(edges))
            for part, (a, b) in zip(parts, pairwise(edges)):
                stop = a + size if eq else b
                nm = Model(m.P[a:stop], m.species, m.lattice, m.time_step, m.metadata)
                nm.check(part, where + ('split', n_parts, eq))
            pool.append((parts[0], Model(m.P[edges[0]:(edges[0] + size if eq else edges[1])], m.species, m.lattice, m.time_step, m.metadata)))
        elif op == 4:  # extend
            how = int(rng.integers(0, 3))
            if how == 0:
                other, om = t, m
            elif how == 1:
                other, om = copy.deepcopy(t), Model(m.P, m.species, m.lattice, m.time_step, m.metadata)
            else:
                other = t[::-1]
                om = Model(m.P[::-1], m.species, m.lattice, m.time_step, m.metadata)
            if rng.integers(0, 2):
                other.to_displacements()
            P_other = om.P.copy()
            t.extend(other)
            m.P = np.concatenate([m.P, P_other])
            m.check(t, where + ('extend', how))
            if other is not t:
                om.check(other, where + ('extend-other',))
        elif op == 5:  # pickle / deepcopy
            new = pickle.loads(pickle.dumps(t)) if rng.integers(0, 2) else copy.deepcopy(t)
            nm = Model(m.P, m.species, m.lattice, m.time_step, m.metadata)
            nm.check(new, where + ('copy',))
            pool.append((new, nm))
        elif op == 6:
            pool.append(make(rng))
        # everything in the pool must still match its oracle
        for tt, mm in pool:
            if rng.integers(0, 3) == 0:
                mm.check(tt, where + ('pool',))
        if len(pool) > 6:
            pool.pop(int(rng.integers(0, len(pool))))
    for tt, mm in pool:
        mm.check(tt, (seed, 'final'))


def run_common(n=120):
    for seed in range(n):
        run_history(seed)
    print(f'common: {n} random histories OK')


# ---------------------------------------------------------------- change 4
def old_distances(disp, lattice):
    """Literal transcription of the previous implementation."""
    G = lattice.metric_tensor
    rows = []
    for vectors in np.cumsum(disp, axis=0):
        tmp = np.dot(vectors, G)
        rows.append(np.sqrt(np.einsum('ij,ji->i', tmp, vectors.T)))
    return np.array(rows).T


def specific():
    from gemdat import _streaming as st

    rng = np.random.default_rng(3)
    exact = total = 0
    shapes = [(1, 1), (2, 3), (7, 5), (64, 17), (500, 40), (1500, 120)]
    for (M, N) in shapes:
        for block_bytes, min_blocks in ((4 << 20, 4), (1, 2), (N * 24 * 3, 2), (N * 24 * 50, 1000)):
            st.BLOCK_BYTES, st.PIPELINE_MIN_BLOCKS = block_bytes, min_blocks
            for dtype in (np.float64, np.float32):
                lat = Lattice(rng.normal(size=(3, 3)) * 2 + 6 * np.eye(3))
                coords = (rng.uniform(0, 1, (N, 3)) + np.cumsum(rng.normal(scale=0.15, size=(M, N, 3)), axis=0)).astype(dtype)
                t = Trajectory(species=[Element('Li')] * N, coords=coords, lattice=lat, time_step=1e-15)
                before = t.positions.copy()
                disp = t.displacements.copy()
                cd = t.cumulative_displacements
                ref_cd = np.cumsum(disp, axis=0)
                assert cd.dtype == ref_cd.dtype and np.array_equal(cd, ref_cd), 'running sum differs'
                dist = t.distances_from_base_position()
                ref = old_distances(disp, lat)
                assert dist.shape == ref.shape == (N, M) and dist.dtype == ref.dtype
                assert dist.strides == ref.strides
                assert np.allclose(dist, ref, rtol=1e-12, atol=1e-14), 'distances differ'
                total += 1
                exact += bool(np.array_equal(dist, ref))
                # independent oracle: cartesian norm
                cart = np.linalg.norm(ref_cd.astype(float) @ lat.matrix, axis=2).T
                assert np.allclose(dist, cart, rtol=1e-6 if dtype is np.float32 else 1e-9, atol=1e-6)
                # read-only: storage was not touched, results are fresh arrays
                assert np.array_equal(t.coords, disp) and t.coords_are_displacement
                cd[:] = 0
                dist[:] = 0
                assert np.array_equal(t.cumulative_displacements, ref_cd)
                assert np.array_equal(t.positions[0], before[0])
                assert circ_close(t.positions, before, tol=1e-4 if dtype is np.float32 else 1e-9)
    print(f'specific: OK ({exact}/{total} distance arrays bit-identical to the previous formula)')
    st.BLOCK_BYTES, st.PIPELINE_MIN_BLOCKS = 4 << 20, 4

    # stream object: re-iterable, blocks are private
    disp = rng.normal(size=(10, 2, 3))
    stream = st.CumulativeDisplacements(disp, block_frames=3)
    a = [b.copy() for _, b in stream]
    for _, b in stream:
        b[:] = 99
    assert all(np.array_equal(x, y) for x, y in zip(a, [b for _, b in stream]))
    assert np.array_equal(np.concatenate(a), np.cumsum(disp, axis=0)) and stream.n_blocks == 4

    # integer / empty inputs take the generic path
    ti = Trajectory(species=[Element('Li')], coords=np.array([[[0, 0, 0]], [[1, 2, 3]]]), lattice=np.eye(3), time_step=1)
    assert ti.cumulative_displacements.dtype.kind == 'i'
    assert np.array_equal(ti.distances_from_base_position(), [[0, 0]])


if __name__ == '__main__':
    run_common(100)
    specific()
    from gemdat import _streaming as st
    st.BLOCK_BYTES, st.PIPELINE_MIN_BLOCKS = 100, 2
    run_common(60)  # again with tiny blocks and the helper thread always on
    print('ALL OK')
