"""Behavioural check of property C16 on synthetic inputs.

Run as:  PYTHONPATH=<worktree>/src /venv/bin/python check.py
Exits 0 if caching behaves as the property demands.
"""

from __future__ import annotations

import contextlib
import datetime
import decimal
import io
import os
import shutil
import sys
import tempfile
import warnings
from pathlib import Path

import numpy as np

warnings.filterwarnings('ignore')

from pymatgen.core import Lattice, Structure  # noqa: E402
from pymatgen.io.lammps.data import LammpsData  # noqa: E402

from gemdat.trajectory import Trajectory  # noqa: E402

FAILURES: list[str] = []


def check(cond, msg):
    if not cond:
        FAILURES.append(msg)
        print('FAIL:', msg)


def same_value(a, b) -> bool:
    if type(a).__module__.startswith('MDAnalysis') and type(b).__module__.startswith('MDAnalysis'):
        # e.g. Residue objects: their class is created per Universe
        return type(a).__name__ == type(b).__name__ and repr(a) == repr(b)
    if type(a) is not type(b):
        return False
    if isinstance(a, np.ndarray):
        return a.dtype == b.dtype and a.shape == b.shape and np.array_equal(a, b, equal_nan=a.dtype.kind == 'f')
    if isinstance(a, dict):
        return list(a.keys()) == list(b.keys()) and all(same_value(a[k], b[k]) for k in a)
    if isinstance(a, (list, tuple)):
        return len(a) == len(b) and all(same_value(x, y) for x, y in zip(a, b))
    return a == b


def same_trajectory(a, b) -> bool:
    if type(a) is not type(b):
        return False
    if sorted(a.__dict__) != sorted(b.__dict__):
        return False
    return all(same_value(a.__dict__[k], b.__dict__[k]) for k in a.__dict__)


@contextlib.contextmanager
def quiet():
    with contextlib.redirect_stdout(io.StringIO()), contextlib.redirect_stderr(io.StringIO()):
        yield


def make_inputs(d, nframes=5, seed=0):
    lat = Lattice.from_parameters(5.0, 6.0, 7.0, 90, 90, 90)
    s = Structure(
        lat,
        ['Li', 'Li', 'S', 'P'],
        [[0.1, 0.1, 0.1], [0.6, 0.5, 0.4], [0.3, 0.8, 0.2], [0.9, 0.2, 0.7]],
    )
    data = os.path.join(d, 'data.txt')
    coords = os.path.join(d, 'traj.xyz')
    with quiet():
        LammpsData.from_structure(s, atom_style='atomic').write_file(data)
    rng = np.random.default_rng(seed)
    with open(coords, 'w') as f:
        for i in range(nframes):
            f.write('4\nframe %d\n' % i)
            for site in s:
                c = site.coords + rng.normal(scale=0.3, size=3)
                f.write('%s %.6f %.6f %.6f\n' % (site.specie.symbol, *c))
    return coords, data


def synthetic_trajectories():
    rng = np.random.default_rng(1)
    lat = Lattice.from_parameters(4, 5, 6, 80, 95, 100)
    out = []
    # positions mode, rich metadata
    out.append(
        Trajectory(
            species=['Li', 'S', 'P'],
            coords=rng.random((7, 3, 3)),
            lattice=lat,
            time_step=2e-15,
            metadata={
                'temperature': 300,
                'when': datetime.datetime(2020, 1, 2, 3, 4, 5),
                'dec': decimal.Decimal('1.25'),
                'path': Path('/some/where'),
                'arr': np.arange(12, dtype=np.int16).reshape(3, 4),
                'farr': np.asfortranarray(rng.random((4, 5))),
                'strided': np.arange(20.0)[::3],
                'empty': np.zeros((0, 3)),
                'nested': {'a': (1, 2.5, None), 'b': [np.float32(3.5), b'bytes', 'x' * 300]},
                'objarr': np.array(['a', None, 3], dtype=object),
                'cplx': 1 + 2j,
                'set': frozenset({1, 2, 3}),
            },
        )
    )
    # displacement mode
    t = Trajectory(
        species=['Li', 'Li'],
        coords=rng.random((4, 2, 3)),
        lattice=lat,
        time_step=1e-15,
        metadata={'temperature': 1.5},
    )
    t.to_displacements()
    out.append(t)
    # variable lattice, site and frame properties
    lattices = [Lattice.cubic(4 + 0.1 * i).matrix for i in range(3)]
    out.append(
        Trajectory(
            species=['Na', 'Cl'],
            coords=rng.random((3, 2, 3)),
            lattice=np.array(lattices),
            constant_lattice=False,
            time_step=1e-15,
            site_properties=[{'tag': ['a', 'b']}] * 3,
            frame_properties=[{'e': float(i)} for i in range(3)],
        )
    )
    # single frame, float32 coords
    out.append(
        Trajectory(
            species=['H'],
            coords=rng.random((1, 1, 3)).astype(np.float32),
            lattice=Lattice.cubic(3),
            time_step=1e-15,
        )
    )
    return out


def new_files(d, before):
    return sorted(set(os.listdir(d)) - set(before))


def roundtrip_checks(tmp):
    for i, traj in enumerate(synthetic_trajectories()):
        for flavour in (str, Path):
            p = flavour(os.path.join(tmp, f'rt{i}.cache'))
            traj.to_cache(p)
            back = Trajectory.from_cache(p)
            check(same_trajectory(traj, back), f'roundtrip {i} ({flavour.__name__}) differs')
            check(back is not traj, 'from_cache must build a new object')
            check(back.coords.flags.writeable, f'roundtrip {i}: coords not writeable')
            # loaded object is fully functional and independent
            back.coords[0, 0, 0] += 1.0
            again = Trajectory.from_cache(p)
            check(same_trajectory(traj, again), f'roundtrip {i}: cache changed by mutating the loaded object')
            # overwrite with a different trajectory, then with the original again
            other = synthetic_trajectories()[(i + 1) % 4]
            other.to_cache(p)
            check(same_trajectory(other, Trajectory.from_cache(p)), f'overwrite {i} differs')
            traj.to_cache(p)
            check(same_trajectory(traj, Trajectory.from_cache(p)), f're-overwrite {i} differs')

    # truncated stand-alone cache files must never load as something else
    traj = synthetic_trajectories()[0]
    p = os.path.join(tmp, 'trunc.cache')
    traj.to_cache(p)
    blob = Path(p).read_bytes()
    for n in range(len(blob)):
        Path(p).write_bytes(blob[:n])
        try:
            with quiet():
                got = Trajectory.from_cache(p)
        except Exception:
            continue
        check(False, f'from_cache accepted a cache truncated to {n}/{len(blob)} bytes: {type(got)}')
        break


def loader(coords, data, **kw):
    kw.setdefault('temperature', 300)
    kw.setdefault('time_step', 1)
    with quiet():
        return Trajectory.from_lammps(coords_file=coords, data_file=data, **kw)


def cache_complete(path, ref) -> bool:
    try:
        with quiet():
            return same_trajectory(Trajectory.from_cache(path), ref)
    except Exception:
        return False


def fault_checks(tmp, explicit: bool):
    d = os.path.join(tmp, 'explicit' if explicit else 'default')
    os.mkdir(d)
    coords, data = make_inputs(d)
    kw = {}
    if explicit:
        kw['cache'] = os.path.join(d, 'my.cache')

    before = os.listdir(d)
    ref = loader(coords, data, **kw)
    created = new_files(d, before)
    caches = [f for f in created if cache_complete(os.path.join(d, f), ref)]
    check(len(caches) == 1, f'expected exactly one complete cache file, got {caches} out of {created}')
    cache = os.path.join(d, caches[0])
    if explicit:
        check(cache == kw['cache'], 'explicit cache path not honoured')

    # a parse without any cache present gives the same thing
    pristine_dir = os.path.join(tmp, 'pristine_' + ('e' if explicit else 'd'))
    os.mkdir(pristine_dir)
    c2, d2 = make_inputs(pristine_dir)
    pristine = loader(c2, d2, cache=os.path.join(pristine_dir, 'x.cache'))
    check(same_trajectory(ref, pristine), 'parse is not reproducible')

    hit = loader(coords, data, **kw)
    check(same_trajectory(ref, hit), 'load with cache present differs from parse')

    blob = Path(cache).read_bytes()
    step = 1 if len(blob) < 6000 else 7
    prefixes = list(range(0, len(blob), step))
    for n in prefixes:
        Path(cache).write_bytes(blob[:n])
        got = loader(coords, data, **kw)
        if not same_trajectory(ref, got):
            check(False, f'wrong trajectory after truncation to {n}/{len(blob)}')
            break
        if not cache_complete(cache, ref):
            check(False, f'no complete cache left after truncation to {n}/{len(blob)}')
            break
        hit = loader(coords, data, **kw)
        if not same_trajectory(ref, hit):
            check(False, f'wrong trajectory from recovered cache ({n})')
            break

    rng = np.random.default_rng(5)
    garbage = [
        b'',
        b'\x00',
        b'garbage',
        bytes(rng.integers(0, 256, 1000, dtype=np.uint8)),
        blob + b'trailing',
        blob[:8] + bytes(len(blob) - 8),
        blob[: len(blob) // 2] + blob[: len(blob) // 2],
        b'\x80\x04',
        b'\x80\x05\x95',
    ]
    for cycle in range(2):
        for g in garbage:
            Path(cache).write_bytes(g)
            got = loader(coords, data, **kw)
            check(same_trajectory(ref, got), f'wrong trajectory for garbage cache {g[:12]!r}')
            check(cache_complete(cache, ref), f'no complete cache after garbage {g[:12]!r}')

    # a cache that is unreadable for another reason: a directory in its place
    os.remove(cache)
    os.mkdir(cache)
    try:
        got = loader(coords, data, **kw)
    except OSError:
        pass  # cannot be replaced by a file; the reference implementation raises here too
    else:
        check(same_trajectory(ref, got), 'wrong trajectory with directory as cache')
    shutil.rmtree(cache, ignore_errors=True)
    if os.path.exists(cache):
        os.remove(cache)

    got = loader(coords, data, **kw)
    check(same_trajectory(ref, got), 'wrong trajectory after cache removal')
    check(cache_complete(cache, ref), 'cache not re-created after removal')
    return d, coords, data, ref


def option_checks(tmp):
    d = os.path.join(tmp, 'options')
    os.mkdir(d)
    coords, data = make_inputs(d)
    combos = [
        dict(),
        dict(temperature=301),
        dict(temperature=300.5),
        dict(time_step=2),
        dict(time_step=1.0),
        dict(coords_format='XYZ'),
        dict(type_mapping={'LI': 'Na', 'S': 'S', 'P': 'P'}),
        dict(type_mapping={'LI': 'K', 'S': 'S', 'P': 'P'}),
    ]
    seen: dict[str, int] = {}
    for i, kw in enumerate(combos):
        before = os.listdir(d)
        ref = loader(coords, data, **kw)
        created = [f for f in new_files(d, before) if cache_complete(os.path.join(d, f), ref)]
        check(len(created) == 1, f'options {kw}: expected one new cache file, got {created}')
        for f in created:
            check(f not in seen, f'options {kw} share cache file with combo {seen.get(f)}')
            seen[f] = i
        again = loader(coords, data, **kw)
        check(same_trajectory(ref, again), f'options {kw}: cached load differs')
        pristine = loader(coords, data, cache=os.path.join(d, f'explicit{i}.cache'), **kw)
        check(same_trajectory(ref, pristine), f'options {kw}: differs from cache-less parse')
    # all caches now present together; every combination still gets its own answer
    for i, kw in enumerate(combos):
        pristine = Trajectory.from_cache(os.path.join(d, f'explicit{i}.cache'))
        check(same_trajectory(loader(coords, data, **kw), pristine), f'options {kw}: cross-talk')

    # unsupported option keeps failing, cache or not
    for _ in range(2):
        try:
            loader(coords, data, constant_lattice=False)
        except NotImplementedError:
            pass
        else:
            check(False, 'constant_lattice=False should raise NotImplementedError')


def generic_fault_loop(name, d, load, max_loads=120):
    """`load(**kw)` loads the files in `d`; exercise default and explicit cache files."""
    for explicit in (False, True):
        kw = {'cache': os.path.join(d, f'explicit_{name}.cache')} if explicit else {}
        for f in os.listdir(d):
            if f.endswith('.cache'):
                os.remove(os.path.join(d, f))
        before = os.listdir(d)
        ref = load(**kw)
        caches = [f for f in new_files(d, before) if cache_complete(os.path.join(d, f), ref)]
        check(len(caches) == 1, f'{name}: expected one complete cache file, got {caches}')
        if not caches:
            continue
        cache = os.path.join(d, caches[0])
        check(same_trajectory(ref, load(**kw)), f'{name}: cached load differs from parse')
        check(
            same_trajectory(ref, load(cache=os.path.join(d, f'other_{name}.cache'))),
            f'{name}: parse not reproducible',
        )
        blob = Path(cache).read_bytes()
        step = max(1, len(blob) // max_loads)
        cuts = sorted(set(range(0, len(blob), step)) | {1, 2, len(blob) - 2, len(blob) - 1})
        for n in cuts:
            Path(cache).write_bytes(blob[:n])
            ok = same_trajectory(ref, load(**kw)) and cache_complete(cache, ref)
            ok = ok and same_trajectory(ref, load(**kw))
            if not ok:
                check(False, f'{name}: not recovered from cache truncated to {n}/{len(blob)}')
                break
        for g in (b'', b'junk' * 100, blob[::-1]):
            Path(cache).write_bytes(g)
            ok = same_trajectory(ref, load(**kw)) and cache_complete(cache, ref)
            check(ok, f'{name}: not recovered from garbage cache {g[:8]!r}')


def gromacs_checks(tmp):
    import MDAnalysis as mda

    d = os.path.join(tmp, 'gromacs')
    os.mkdir(d)
    top = os.path.join(d, 'top.gro')
    xtc = os.path.join(d, 'traj.xtc')
    with quiet():
        u = mda.Universe.empty(4, n_residues=1, atom_resindex=[0] * 4, trajectory=True)
        u.add_TopologyAttr('name', ['Li1', 'Li2', 'S1', 'P1'])
        u.add_TopologyAttr('resname', ['MOL'])
        u.add_TopologyAttr('resid', [1])
        u.dimensions = [10, 11, 12, 90, 90, 90]
        rng = np.random.default_rng(0)
        base = rng.random((4, 3)) * 10
        u.atoms.positions = base
        u.atoms.write(top)
        with mda.Writer(xtc, 4) as w:
            for i in range(4):
                u.atoms.positions = base + rng.normal(scale=0.3, size=(4, 3))
                u.trajectory.ts.dimensions = [10, 11, 12, 90, 90, 90]
                w.write(u.atoms)

    def load(temperature=300, **kw):
        with quiet():
            return Trajectory.from_gromacs(
                topology_file=top, coords_file=xtc, temperature=temperature, **kw
            )

    generic_fault_loop('gromacs', d, load, max_loads=60)

    for f in os.listdir(d):
        if f.endswith('.cache'):
            os.remove(os.path.join(d, f))
    before = os.listdir(d)
    a = load(temperature=300)
    b = load(temperature=400)
    created = [f for f in new_files(d, before) if f.endswith('.cache')]
    check(len(created) == 2, f'gromacs: two option sets should give two cache files, got {created}')
    check(a.metadata != b.metadata, 'gromacs: option sets share a cache')
    check(same_trajectory(a, load(temperature=300)), 'gromacs: cross-talk (300)')
    check(same_trajectory(b, load(temperature=400)), 'gromacs: cross-talk (400)')


def vasprun_checks(tmp):
    """`from_vasprun` with pymatgen's (slow, picky) Vasprun parser stubbed out."""
    from pymatgen.io import vasp

    d = os.path.join(tmp, 'vasp')
    os.mkdir(d)
    xml = os.path.join(d, 'vasprun.xml')
    Path(xml).write_text('<modeling/>')

    rng = np.random.default_rng(3)
    lat = Lattice.from_parameters(5, 5.5, 6, 90, 100, 90)
    frac = rng.random((3, 3))
    structures = [
        Structure(lat, ['Li', 'S', 'P'], frac + 0.4 * rng.normal(scale=0.1, size=(3, 3)))
        for _ in range(4)
    ]
    calls = []

    class FakeVasprun:
        def __init__(self, filename, **kwargs):
            calls.append((str(filename), dict(kwargs)))
            if not os.path.exists(filename):
                raise FileNotFoundError(filename)
            skip = kwargs.get('ionic_step_skip') or 1
            self.structures = structures[::skip]
            self.parameters = {'TEBEG': 650.0, 'POTIM': 2.0}

    real = vasp.Vasprun
    vasp.Vasprun = FakeVasprun
    try:

        def load(**kw):
            with quiet():
                return Trajectory.from_vasprun(xml, **kw)

        generic_fault_loop('vasprun', d, load, max_loads=150)

        for f in os.listdir(d):
            if f.endswith('.cache'):
                os.remove(os.path.join(d, f))
        combos = [
            {},
            {'ionic_step_skip': 2},
            {'constant_lattice': False},
            {'exception_on_bad_xml': False},
            {'ionic_step_skip': 2, 'constant_lattice': False},
        ]
        refs = []
        names: set[str] = set()
        for kw in combos:
            before = os.listdir(d)
            refs.append(load(**kw))
            created = [f for f in new_files(d, before) if f.endswith('.cache')]
            check(len(created) == 1, f'vasprun {kw}: expected one new cache file, got {created}')
            check(not (set(created) & names), f'vasprun {kw}: cache file shared with other options')
            names |= set(created)
        for kw, ref in zip(combos, refs):
            n = len(calls)
            check(same_trajectory(ref, load(**kw)), f'vasprun {kw}: cached load differs')
            pristine = load(cache=os.path.join(d, 'pristine.cache'), **kw)
            os.remove(os.path.join(d, 'pristine.cache'))
            check(same_trajectory(ref, pristine), f'vasprun {kw}: differs from parse')
            check(len(calls) >= n + 1, 'stub parser not used?')
        check(len(refs[0]) != len(refs[1]), 'stub options have no effect')
        check(refs[0].constant_lattice != refs[2].constant_lattice, 'constant_lattice has no effect')
    finally:
        vasp.Vasprun = real


def run(extra=None):
    tmp = tempfile.mkdtemp(prefix='c16check_')
    try:
        roundtrip_checks(tmp)
        fault_checks(tmp, explicit=False)
        fault_checks(tmp, explicit=True)
        option_checks(tmp)
        gromacs_checks(tmp)
        vasprun_checks(tmp)
        if extra:
            extra(tmp)
    finally:
        shutil.rmtree(tmp, ignore_errors=True)
    if FAILURES:
        print(f'{len(FAILURES)} failure(s)')
        sys.exit(1)
    print('OK')
    sys.exit(0)


WORKER = r'''
import sys, warnings, hashlib, io, contextlib
warnings.filterwarnings('ignore')
from gemdat.trajectory import Trajectory
coords, data = sys.argv[1:3]
with contextlib.redirect_stdout(io.StringIO()):
    t = Trajectory.from_lammps(coords_file=coords, data_file=data, temperature=300, time_step=1)
h = hashlib.sha1()
h.update(t.coords.tobytes()); h.update(t.base_positions.tobytes()); h.update(repr(t.species).encode())
h.update(repr(sorted(t.metadata.items())).encode()); h.update(repr(t.time_step).encode())
print(h.hexdigest())
'''


def digest(t):
    import hashlib

    h = hashlib.sha1()
    h.update(t.coords.tobytes())
    h.update(t.base_positions.tobytes())
    h.update(repr(t.species).encode())
    h.update(repr(sorted(t.metadata.items())).encode())
    h.update(repr(t.time_step).encode())
    return h.hexdigest()


def extra(tmp):
    """Change 4: advisory locks (threads + flock on a side-car file), double-checked lookup."""
    import subprocess
    import threading
    import time

    from gemdat import _filelock

    d = os.path.join(tmp, 'locks')
    os.mkdir(d)
    coords, data = make_inputs(d)
    before = os.listdir(d)
    ref = loader(coords, data)
    created = new_files(d, before)
    caches = [f for f in created if f.endswith('.cache')]
    check(len(caches) == 1, f'expected one cache file, got {created}')
    cache = os.path.join(d, caches[0])
    check(cache_complete(cache, ref), 'cache incomplete')
    for f in created:
        if f not in caches:
            check(
                os.path.getsize(os.path.join(d, f)) == 0 and f.startswith('.'),
                f'unexpected extra file {f}',
            )

    # stale lock files (left by a killed process) and junk in them are harmless
    side = _filelock.sidecar(cache)
    Path(side).write_bytes(b'junk left behind')
    Path(cache).write_bytes(b'')
    check(same_trajectory(ref, loader(coords, data)), 'wrong trajectory with junk in lock file')
    check(cache_complete(cache, ref), 'no complete cache with junk in lock file')
    os.remove(side)
    check(same_trajectory(ref, loader(coords, data)), 'wrong trajectory after lock file removal')

    # a lock file that cannot be opened (a directory in its place): proceed unlocked
    os.remove(side)
    os.mkdir(side)
    Path(cache).write_bytes(Path(cache).read_bytes()[:100])
    check(same_trajectory(ref, loader(coords, data)), 'wrong trajectory with unusable lock file')
    check(cache_complete(cache, ref), 'no complete cache with unusable lock file')
    os.rmdir(side)

    # nesting in one thread does not dead-lock, whatever the order
    p = os.path.join(d, 'nest.cache')
    done = []

    def nest():
        with _filelock.CacheLock(p, shared=True):
            with _filelock.CacheLock(p):
                ref.to_cache(p)
                with _filelock.CacheLock(p, shared=True):
                    done.append(Trajectory.from_cache(p))

    t = threading.Thread(target=nest, daemon=True)
    t.start()
    t.join(30)
    check(not t.is_alive() and done and same_trajectory(ref, done[0]), 'nested locks dead-lock')

    # another process sits on the lock: we wait `timeout`, then carry on regardless
    holder = subprocess.Popen(
        [
            sys.executable,
            '-c',
            'import fcntl,os,sys,time\n'
            'fd=os.open(sys.argv[1],os.O_RDWR|os.O_CREAT)\n'
            'fcntl.flock(fd,fcntl.LOCK_EX)\n'
            'print("held",flush=True)\n'
            'time.sleep(60)\n',
            _filelock.sidecar(p),
        ],
        stdout=subprocess.PIPE,
    )
    try:
        holder.stdout.readline()
        t0 = time.monotonic()
        with _filelock.CacheLock(p, shared=True, timeout=0.3):
            got = pickle_free_read(p)
        waited = time.monotonic() - t0
        check(same_trajectory(ref, got), 'read under contended lock is wrong')
        check(0.25 < waited < 10, f'contended lock: waited {waited:.2f}s')
    finally:
        holder.kill()
        holder.wait()
    # the killed holder's lock is gone
    t0 = time.monotonic()
    check(same_trajectory(ref, Trajectory.from_cache(p)), 'read after holder died')
    check(time.monotonic() - t0 < 5, 'lock of a dead process still blocks')

    # threads
    for start_with in ('none', 'truncated'):
        if start_with == 'none':
            os.remove(cache)
        else:
            blob = Path(cache).read_bytes()
            Path(cache).write_bytes(blob[: len(blob) // 3])
        results, errors = [], []

        def work():
            try:
                results.append(
                    Trajectory.from_lammps(
                        coords_file=coords, data_file=data, temperature=300, time_step=1
                    )
                )
            except Exception as exc:  # pragma: no cover
                errors.append(exc)

        with quiet():
            threads = [threading.Thread(target=work) for _ in range(6)]
            for t in threads:
                t.start()
            for t in threads:
                t.join()
        check(not errors, f'threads ({start_with}): {errors}')
        check(
            len(results) == 6 and all(same_trajectory(ref, r) for r in results),
            f'threads ({start_with}): wrong result',
        )
        check(cache_complete(cache, ref), f'threads ({start_with}): no complete cache')

    # processes
    env = dict(os.environ)
    for start_with in ('none', 'truncated', 'intact'):
        if start_with == 'none':
            os.remove(cache)
        elif start_with == 'truncated':
            blob = Path(cache).read_bytes()
            Path(cache).write_bytes(blob[: 2 * len(blob) // 3])
        procs = [
            subprocess.Popen(
                [sys.executable, '-c', WORKER, coords, data],
                stdout=subprocess.PIPE,
                stderr=subprocess.DEVNULL,
                env=env,
            )
            for _ in range(4)
        ]
        outs = [proc.communicate()[0].decode().strip() for proc in procs]
        check(all(proc.returncode == 0 for proc in procs), f'processes ({start_with}): worker failed')
        check(outs == [digest(ref)] * 4, f'processes ({start_with}): wrong result {outs}')
        check(cache_complete(cache, ref), f'processes ({start_with}): no complete cache')

    # forked child (lock registry is reset) can load, from an intact and from a broken cache
    if hasattr(os, 'fork'):
        for broken in (False, True):
            if broken:
                Path(cache).write_bytes(b'broken')
            pid = os.fork()
            if pid == 0:
                code = 1
                try:
                    got = loader(coords, data)
                    code = 0 if same_trajectory(ref, got) and cache_complete(cache, ref) else 2
                finally:
                    os._exit(code)
            _, status = os.waitpid(pid, 0)
            check(os.waitstatus_to_exitcode(status) == 0, f'forked child failed (broken={broken})')
            check(cache_complete(cache, ref), f'forked child left no complete cache (broken={broken})')

    # parser errors release the locks
    os.remove(cache)
    os.rename(data, data + '.away')
    for _ in range(2):
        try:
            loader(coords, data)
        except Exception:
            pass
        else:
            check(False, 'missing data file should raise')
    os.rename(data + '.away', data)
    t0 = time.monotonic()
    check(same_trajectory(ref, loader(coords, data)), 'wrong trajectory after parser error')
    check(time.monotonic() - t0 < 20, 'lock not released after parser error')


def pickle_free_read(p):
    # plain read without going through the public (locking) reader
    import pickle

    with open(p, 'rb') as f:
        return pickle.load(f)


run(extra)
