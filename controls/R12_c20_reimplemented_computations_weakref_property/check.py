"""check.py for change 4 - run as PYTHONPATH=<worktree>/src /venv/bin/python check.py [--quick]"""
"""Synthetic lattice-gas world shared (copied) into every check.py."""
import gc
import warnings
import weakref

import numpy as np
from pymatgen.core import Element, Lattice, Structure

warnings.filterwarnings('ignore')


def make_world(seed, n_steps=240, n_li=3, hop_p=0.08, a=8.0):
    from gemdat.trajectory import Trajectory

    rng = np.random.default_rng(seed)
    lattice = Lattice.cubic(a)
    site_frac = np.array(
        [[0.1, 0.1, 0.1], [0.6, 0.1, 0.1], [0.1, 0.6, 0.1], [0.6, 0.6, 0.1], [0.35, 0.35, 0.6]]
    )
    n_sites = len(site_frac)
    sites = Structure(
        lattice,
        ['Li'] * n_sites,
        site_frac,
        labels=['A', 'A', 'B', 'B', 'C'],
    )
    occ = list(rng.choice(n_sites, size=n_li, replace=False))
    pos = np.zeros((n_steps, n_li + 1, 3))
    moving = {}
    for t in range(n_steps):
        for k in range(n_li):
            if k in moving:
                src, dst, left = moving[k]
                if left == 0:
                    occ[k] = dst
                    del moving[k]
                else:
                    moving[k] = (src, dst, left - 1)
            elif rng.random() < hop_p:
                free = [s for s in range(n_sites) if s not in occ and s not in [m[1] for m in moving.values()]]
                if free:
                    dst = int(rng.choice(free))
                    moving[k] = (occ[k], dst, 1)
            if k in moving:
                src, dst, _ = moving[k]
                d = site_frac[dst] - site_frac[src]
                d -= np.round(d)
                p = site_frac[src] + 0.5 * d
            else:
                p = site_frac[occ[k]]
            pos[t, k] = p + rng.normal(scale=0.004, size=3)
        pos[t, n_li] = [0.85, 0.85, 0.85] + rng.normal(scale=0.002, size=3)
    pos = np.mod(pos, 1)
    traj = Trajectory(
        species=[Element('Li')] * n_li + [Element('S')],
        coords=pos,
        lattice=lattice.matrix,
        time_step=2e-15,
        constant_lattice=True,
        metadata={'temperature': 600.0},
    )
    return traj, sites


def make_transitions(seed, **kw):
    traj, sites = make_world(seed, **kw)
    return traj.transitions_between_sites(sites=sites, floating_specie='Li', site_radius=1.0)
# ---------------------------------------------------------------------------
# Generic C20 harness: cached == uncached for random histories, no leaks
# between objects (incl. address reuse), caching never pins its object.
# ---------------------------------------------------------------------------
import copy
import pickle
import random
import threading
from collections import Counter

import networkx as nx
import pandas as pd


RTOL = 1e-9  # recomputation is not bit-reproducible (SIMD summation order depends on alignment)


def _close(x, y):
    x, y = np.asarray(x), np.asarray(y)
    if x.shape != y.shape or x.dtype != y.dtype:
        return False
    if x.dtype.kind in 'fc':
        return bool(np.allclose(x, y, rtol=RTOL, atol=0, equal_nan=True))
    return bool(np.all(x == y))


def same(a, b):
    """Structural equality for everything the cached methods return."""
    if isinstance(a, tuple) and isinstance(b, tuple):
        return len(a) == len(b) and all(same(x, y) for x, y in zip(a, b))
    if isinstance(a, np.ndarray) or isinstance(b, np.ndarray):
        return _close(a, b)
    if isinstance(a, pd.DataFrame):
        return (isinstance(b, pd.DataFrame) and list(a.columns) == list(b.columns)
                and list(a.index) == list(b.index) and _close(a.to_numpy(), b.to_numpy()))
    if isinstance(a, nx.DiGraph):
        if not (isinstance(b, nx.DiGraph) and list(a.nodes(data=True)) == list(b.nodes(data=True))):
            return False
        ea, eb = sorted(a.edges(data='e_act')), sorted(b.edges(data='e_act'))
        return ([e[:2] for e in ea] == [e[:2] for e in eb]
                and _close([float(e[2]) for e in ea], [float(e[2]) for e in eb]))
    if type(a).__name__ == 'Collective':
        return (type(b).__name__ == 'Collective' and a.n_solo_jumps == b.n_solo_jumps
                and a.coll_jumps == b.coll_jumps and a.max_dist == b.max_dist
                and a.max_steps == b.max_steps)
    if isinstance(a, float):  # includes FloatWithUnit
        return type(a) is type(b) and _close(float(a), float(b)) \
            and getattr(a, 'unit', None) == getattr(b, 'unit', None)
    return type(a) is type(b) and a == b


# (kind, method name, list of (args, kwargs) variants)
QUERIES = {
    'transitions': [
        ('matrix', [((), {})]),
        ('states_next', [((), {})]),
        ('states_prev', [((), {})]),
    ],
    'jumps': [
        ('matrix', [((), {})]),
        ('counter', [((), {})]),
        ('_counter', [((), {})]),
        ('jump_diffusivity', [((3,), {}), ((), {'dimensions': 3}), ((2,), {}), ((), {'dimensions': 1})]),
        ('collective', [((), {}), ((1,), {}), ((), {'max_dist': 1}), ((), {'max_dist': 4.5}), ((6.0,), {})]),
        ('rates', [((), {'n_parts': 2}), ((2,), {}), ((3,), {}), ((), {'n_parts': 3})]),
        ('to_graph', [((), {}), ((), {'min_e_act': 0.1}), ((0.1,), {}), ((), {'max_e_act': 0.1}),
                      ((None, 0.1), {}), ((0.1, 0.15), {}), ((), {'min_e_act': 0.15, 'max_e_act': 0.1})]),
        ('activation_energies', [((), {'n_parts': 2}), ((2,), {})]),
    ],
    'metrics': [
        ('speed', [((), {})]),
        ('particle_density', [((), {})]),
        ('mol_per_liter', [((), {})]),
        ('tracer_diffusivity', [((), {}), ((), {'dimensions': 3}), ((), {'dimensions': 2}), ((), {'dimensions': 1})]),
        ('tracer_diffusivity_center_of_mass', [((), {}), ((), {'dimensions': 2})]),
        ('haven_ratio', [((), {}), ((), {'dimensions': 2})]),
        ('tracer_conductivity', [((), {'z_ion': 1}), ((), {'z_ion': 1, 'dimensions': 2}),
                                 ((), {'z_ion': 2, 'dimensions': 1}), ((), {'dimensions': 2, 'z_ion': 1}),
                                 ((), {'z_ion': 2})]),
        ('attempt_frequency', [((), {})]),
        ('vibration_amplitude', [((), {})]),
        ('amplitudes', [((), {})]),
    ],
    'collective': [
        ('site_pair_count_matrix', [((), {})]),
        ('site_pair_count_matrix_labels', [((), {})]),
        ('multiple_collective', [((), {})]),
    ],
}

N_SEEDS = 6
SMALL = dict(n_steps=160, n_li=3, hop_p=0.12)


def build(kind, seed):
    """Create a brand-new analysis object of `kind` for world `seed`.

    Returns (obj, keepalive): keepalive holds whatever the object only
    references weakly (a Collective needs its Jumps).
    """
    t = make_transitions(seed, **SMALL)
    if kind == 'transitions':
        return t, None
    if kind == 'jumps':
        return t.jumps(), None
    if kind == 'metrics':
        return t.diff_trajectory.metrics(), None
    if kind == 'collective':
        j = t.jumps()
        from gemdat.collective import Collective
        c = Collective(jumps=j, sites=j.sites, lattice=j.trajectory.get_lattice(),
                       max_steps=3 + seed, max_dist=4.5)
        return c, j
    raise AssertionError(kind)


_REFERENCE = {}


def reference(kind, seed, name, args, kwargs):
    """Value of a first-ever call on a private, freshly built object."""
    key = (kind, seed, name, repr(args), repr(sorted(kwargs.items())))
    if key not in _REFERENCE:
        obj, keep = build(kind, seed)
        _REFERENCE[key] = getattr(obj, name)(*args, **kwargs)
        del obj, keep
    return _REFERENCE[key]


def uncached(obj, name, args, kwargs):
    """Uncached recomputation through __wrapped__ when the library offers it."""
    raw = getattr(getattr(type(obj), name), '__wrapped__', None)
    if raw is None:
        return None
    return raw(obj, *args, **kwargs)


def check_one(kind, seed, obj, rng, tag='', only=None):
    name, variants = rng.choice([q for q in QUERIES[kind] if only is None or q[0] in only])
    args, kwargs = rng.choice(variants)
    got = getattr(obj, name)(*args, **kwargs)
    want = reference(kind, seed, name, args, kwargs)
    assert same(got, want), f'{tag}{kind}[{seed}].{name}{args}{kwargs}: {got!r} != {want!r}'
    if rng.random() < 0.15:
        raw = uncached(obj, name, args, kwargs)
        if raw is not None:
            assert same(got, raw), f'{tag}{kind}[{seed}].{name}: cached != __wrapped__'


def run_history(seed, n_ops=500, max_live=20, kinds=('transitions', 'jumps', 'metrics', 'collective')):
    rng = random.Random(seed)
    live = []  # (kind, world seed, obj, keepalive)
    n_dropped = 0
    for step in range(n_ops):
        r = rng.random()
        if not live or (r < 0.18 and len(live) < max_live):
            kind = rng.choice(kinds)
            ws = rng.randrange(N_SEEDS)
            obj, keep = build(kind, ws)
            live.append((kind, ws, obj, keep))
        elif r < 0.30:
            k = rng.randrange(len(live))
            kind, ws, obj, keep = live.pop(k)
            probe = weakref.ref(obj)
            gc_was = gc.isenabled()
            gc.disable()
            try:
                del obj, keep
                assert probe() is None, f'{kind}[{ws}] still alive after its last reference went away'
            finally:
                if gc_was:
                    gc.enable()
            n_dropped += 1
        elif r < 0.34:
            gc.collect()
        else:
            kind, ws, obj, keep = rng.choice(live)
            check_one(kind, ws, obj, rng, tag=f'h{seed}/{step} ')
    return n_dropped


def check_address_reuse(kind, name, args=(), kwargs=None, rounds=60):
    """Create/query/destroy in a tight loop so CPython recycles addresses."""
    kwargs = kwargs or {}
    seen = {}
    reused = 0
    # pre-build the parts so that only the analysis object itself is recycled
    for i in range(rounds):
        ws = i % N_SEEDS
        obj, keep = build(kind, ws)
        addr = id(obj)
        if addr in seen and seen[addr] != ws:
            reused += 1
        seen[addr] = ws
        got = getattr(obj, name)(*args, **kwargs)
        assert same(got, reference(kind, ws, name, args, kwargs)), \
            f'address reuse: {kind}.{name} for world {ws} returned a foreign value'
        del obj, keep
    return reused


def check_many_live(n=150):
    """More live objects than any plausible cache size, queried round-robin twice."""
    from gemdat.transitions import Transitions
    base = [make_transitions(s, **SMALL) for s in range(N_SEEDS)]
    objs = []
    for i in range(n):
        b = base[i % N_SEEDS]
        k = 1 + i // N_SEEDS
        ev = b.events.iloc[: max(1, len(b.events) - k)].reset_index(drop=True)
        objs.append(Transitions(trajectory=b.trajectory, diff_trajectory=b.diff_trajectory, sites=b.sites,
                                events=ev, states=b.states[: len(b.states) - k], inner_states=b.inner_states))
    from gemdat.transitions import _calculate_transitions_matrix
    from gemdat.utils import bfill, ffill
    for _round in range(3):
        for o in (objs if _round != 1 else reversed(objs)):
            assert same(o.matrix(), _calculate_transitions_matrix(o.events, n_sites=o.n_sites))
            assert same(o.states_next(), bfill(o.states, fill_val=-1, axis=0))
            assert same(o.states_prev(), ffill(o.states, fill_val=-1, axis=0))
    probes = [weakref.ref(o) for o in objs]
    gc.disable()
    try:
        del objs, o
        alive = sum(p() is not None for p in probes)
    finally:
        gc.enable()
    assert alive == 0, f'{alive} of {n} Transitions objects pinned after deletion'


# `Trajectory.positions` / `.displacements` convert the coordinates of the trajectory *in
# place*, so (also in the unmodified library) two threads must not compute trajectory based
# quantities on one trajectory at the same time. The thread check sticks to the memoised
# methods that only read events / states / jump tables.
THREAD_SAFE = {
    'transitions': ('matrix', 'states_next', 'states_prev'),
    'jumps': ('matrix', 'counter', '_counter', 'jump_diffusivity', 'rates'),
    'collective': ('site_pair_count_matrix', 'site_pair_count_matrix_labels', 'multiple_collective'),
}


def check_threads(n_threads=6, n_ops=150):
    pool = []
    for kind in THREAD_SAFE:
        for ws in range(3):
            obj, keep = build(kind, ws)
            pool.append((kind, ws, obj, keep))
    # warm the reference table single-threaded
    for kind, ws, obj, keep in pool:
        for name, variants in QUERIES[kind]:
            if name in THREAD_SAFE[kind]:
                for args, kwargs in variants:
                    reference(kind, ws, name, args, kwargs)
    errors = []

    def worker(i):
        rng = random.Random(1000 + i)
        try:
            for _ in range(n_ops):
                kind, ws, obj, keep = rng.choice(pool)
                check_one(kind, ws, obj, rng, tag=f'thread{i} ', only=THREAD_SAFE[kind])
                if rng.random() < 0.2:
                    o2, k2 = build('transitions', ws % 3)
                    assert same(o2.matrix(), reference('transitions', ws % 3, 'matrix', (), {}))
                    del o2, k2
        except BaseException as exc:  # noqa
            errors.append(exc)

    threads = [threading.Thread(target=worker, args=(i,)) for i in range(n_threads)]
    for t in threads:
        t.start()
    for t in threads:
        t.join()
    if errors:
        raise errors[0]


def check_copies():
    """A copy is a different object: it must get its own results."""
    t, _ = build('transitions', 0)
    other, _ = build('transitions', 1)
    m0 = t.matrix()
    for clone in (copy.copy(t), copy.deepcopy(t), pickle.loads(pickle.dumps(t))):
        assert same(clone.matrix(), m0)
        clone2 = copy.copy(t)
        clone2.events = other.events
        assert same(clone2.matrix(), other.matrix()), 'copy returned the result of its original'
    assert same(t.matrix(), m0)
    j, _ = build('jumps', 2)
    j.matrix(); j.counter(); j.collective()
    j2 = pickle.loads(pickle.dumps(j))
    assert same(j2.matrix(), j.matrix()) and same(j2.counter(), j.counter())
    m, _ = build('metrics', 3)
    m.speed()
    m2 = copy.copy(m)
    m2.trajectory = build('metrics', 4)[0].trajectory
    assert same(m2.speed(), reference('metrics', 4, 'speed', (), {}))
    assert same(m.speed(), reference('metrics', 3, 'speed', (), {}))


def check_exceptions_not_cached():
    """A failing computation must fail again (and succeed once it can)."""
    j, _ = build('jumps', 0)
    try:
        j.rates(n_parts=10 ** 6)
    except ValueError:
        pass
    else:
        raise AssertionError('expected ValueError for absurd n_parts')
    try:
        j.rates(n_parts=10 ** 6)
    except ValueError:
        pass
    else:
        raise AssertionError('error result was memoised as a value')
    assert same(j.rates(n_parts=2), reference('jumps', 0, 'rates', (), {'n_parts': 2}))


def run_generic(quick=False):
    dropped = 0
    for s in range(2 if quick else 4):
        dropped += run_history(s, n_ops=250 if quick else 500)
    assert dropped > 10
    reused = 0
    reused += check_address_reuse('transitions', 'matrix')
    reused += check_address_reuse('jumps', 'counter')
    reused += check_address_reuse('metrics', 'tracer_diffusivity', kwargs={'dimensions': 2})
    reused += check_address_reuse('jumps', 'collective', kwargs={'max_dist': 4.5}, rounds=30)
    check_many_live()
    check_threads()
    check_copies()
    check_exceptions_not_cached()
    return dropped, reused
# ---------------------------------------------------------------------------
# Checks specific to change 4 (bincount tally for the transition matrices,
# shared memoised helpers in Jumps, Collective holds a weakref.ref)
# ---------------------------------------------------------------------------
def _old_transitions_matrix(events, n_sites):
    """Verbatim copy of the implementation that was replaced."""
    transitions = np.zeros((n_sites, n_sites), dtype=int)
    idx, counts = np.unique(
        events[['start site', 'destination site']], return_counts=True, axis=0
    )
    start_idx, stop_idx = idx.T
    transitions[start_idx, stop_idx] = counts
    return transitions


def _outcome(f, *a):
    try:
        return ('ok', f(*a))
    except Exception as exc:  # noqa
        return ('err', type(exc))


def check_specific():
    from gemdat.collective import Collective
    from gemdat.jumps import Jumps
    from gemdat.transitions import _calculate_transitions_matrix

    cols = ['start site', 'destination site']
    rng = np.random.default_rng(7)

    def frame(a, extra=True):
        df = pd.DataFrame(a, columns=cols)
        if extra:
            df['atom index'] = 0
            df['time'] = np.arange(len(df))
        return df

    # 1. tally == sort based implementation, including numpy wrap-around of negative site indices
    n_cases = 0
    for n in (1, 2, 3, 5, 8, 17):
        for lo, hi in ((0, n), (-1, n), (-n, n), (-n, 0), (-n - 1, n), (0, n + 1), (-3 * n, 3 * n)):
            for size in (1, 2, 7, 60, 400):
                for dtype in (np.int64, np.int32, np.int8):
                    a = rng.integers(lo, hi, size=(size, 2)).astype(dtype)
                    ev = frame(a, extra=bool(size % 2))
                    old, new = _outcome(_old_transitions_matrix, ev, n), _outcome(_calculate_transitions_matrix, ev, n)
                    assert old[0] == new[0], (n, lo, hi, size, old, new)
                    if old[0] == 'ok':
                        assert old[1].dtype == new[1].dtype and old[1].shape == new[1].shape and np.array_equal(old[1], new[1]), (n, lo, hi, a)
                    else:
                        assert old[1] is new[1], (old, new)
                    n_cases += 1
    # odd inputs take the generic route and behave as before
    for ev, n in (
        (frame(np.zeros((0, 2), dtype=int)), 4),
        (pd.DataFrame(columns=cols), 3),
        (frame(np.array([[0.0, 1.0], [1.0, 2.0]])), 3),
        (frame(np.array([[0, 1], [1, 0]], dtype=np.uint8)), 2),
        (frame(np.array([[0, 1], [1, 0]])), 0),
        (frame(np.array([[True, False], [True, True]])), 2),
        (frame(np.array([[-1, 2], [2499, -2500], [2499, 2]])), 2500),
        (pd.DataFrame({'start site': [1, 2]}), 3),
    ):
        old, new = _outcome(_old_transitions_matrix, ev, n), _outcome(_calculate_transitions_matrix, ev, n)
        assert old[0] == new[0], (ev, old, new)
        if old[0] == 'ok':
            assert old[1].dtype == new[1].dtype and np.array_equal(old[1], new[1])
        else:
            assert old[1] is new[1], (old, new)

    # 2. on real objects (Transitions.events contain NOSITE = -1)
    for ws in range(N_SEEDS):
        t, _ = build('transitions', ws)
        assert (t.events[cols].to_numpy() < 0).any()
        assert same(t.matrix(), _old_transitions_matrix(t.events, t.n_sites))
        j = t.jumps()
        assert same(j.matrix(), _old_transitions_matrix(j.data, t.n_sites))

        # 3. rates() through the shared helper == the formula on hand-made parts
        for n_parts in (2, 3):
            counters = [Jumps(p, minimal_residence=j.minimal_residence).counter() for p in t.split(n_parts)]
            assert list(j._part_counters(n_parts)) == counters
            part_time = j.trajectory.total_time / n_parts
            denom = j.n_floating * part_time
            want = {
                pair: (float(np.mean([c[pair] for c in counters]) / denom),
                       float(np.std([c[pair] for c in counters], ddof=1) / denom))
                for pair in j.site_pairs
            }
            want = pd.DataFrame(want).T
            want.columns = ('rates', 'std')
            assert same(j.rates(n_parts=n_parts), want)
            assert same(j.rates(n_parts), want)
        # the helper result is shared, never modified
        before = [Counter(c) for c in j._part_counters(2)]
        j.rates(2), j.activation_energies(2), j.activation_energies(n_parts=2)
        assert [Counter(c) for c in j._part_counters(2)] == before

        # 4. attempt frequency helper == what TrajectoryMetrics reports
        af, _std = j.trajectory.metrics().attempt_frequency()
        assert same(j._attempt_frequency(), af)
        c = j.collective(max_dist=4.5)
        from math import ceil
        assert c.max_steps == ceil(1.0 / (af * j.trajectory.time_step))

        # 5. Collective -> Jumps is a weak link that resolves to the real object
        assert c.jumps is j and c.jumps.data is j.data
        probe = weakref.ref(j)
        n_live = sum(isinstance(o, Jumps) for o in gc.get_objects())
        gc.disable()
        try:
            del j
            assert probe() is None, 'memoised Collective keeps its Jumps alive'
        finally:
            gc.enable()
        assert sum(isinstance(o, Jumps) for o in gc.get_objects()) == n_live - 1, 'temporary parts survived'
        try:
            c.jumps
        except ReferenceError:
            pass
        else:
            raise AssertionError('expected ReferenceError')
        # results that do not need the Jumps are still available
        c.site_pair_count_matrix(), c.multiple_collective()
        j2 = t.jumps()
        c.jumps = j2
        assert c.jumps is j2
    return n_cases


def check_typed_helper():
    """n_parts=2.0 is invalid for split(); a memoised helper must not hide that."""
    j, _ = build('jumps', 0)
    j.activation_energies(2)
    j2, _ = build('jumps', 0)
    for obj in (j, j2):
        try:
            obj.rates(2.0)
        except TypeError:
            pass
        else:
            raise AssertionError('rates(2.0) answered from the helper entry for n_parts=2')


_check_specific_core = check_specific


def check_specific():  # noqa: F811
    _check_specific_core()
    check_typed_helper()


if __name__ == '__main__':
    import sys

    check_specific()
    dropped, reused = run_generic(quick='--quick' in sys.argv)
    print(f'OK ({dropped} objects dropped in random histories, {reused} address re-uses observed)')
