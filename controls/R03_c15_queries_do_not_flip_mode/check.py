"""Shared oracle harness for the C15 checks (copied verbatim into every check.py).

Keeps, for every live trajectory, an independent numpy model (wrapped
positions, species symbols, lattice matrix, time step, metadata) and replays
random histories of API calls, comparing after every step.
"""
import itertools
import warnings

import numpy as np
from pymatgen.core import Element, Lattice

from gemdat import Trajectory

warnings.filterwarnings('ignore')

TOL = 1e-9


def pdiff(a, b):
    d = np.asarray(a) - np.asarray(b)
    return np.abs(d - np.round(d))


class Model:
    def __init__(self, pos, symbols, matrix, time_step, metadata):
        self.pos = np.mod(pos, 1.0)
        self.symbols = list(symbols)
        self.matrix = np.array(matrix, dtype=float)
        self.time_step = time_step
        self.metadata = dict(metadata)

    def frames(self, sel):
        return Model(self.pos[sel], self.symbols, self.matrix, self.time_step, self.metadata)

    def atoms(self, wanted):
        mask = np.array([s in wanted for s in self.symbols], dtype=bool)
        return Model(
            self.pos[:, mask],
            [s for s in self.symbols if s in wanted],
            self.matrix,
            self.time_step,
            self.metadata,
        )

    def displacements(self):
        d = np.diff(self.pos, axis=0, prepend=self.pos[:1])
        return d - np.round(d)


def check(traj, model, where):
    pos = traj.positions
    assert pos.shape == model.pos.shape, (where, pos.shape, model.pos.shape)
    assert (pos >= 0).all() and (pos < 1).all(), (where, 'positions not in [0, 1)')
    err = pdiff(pos, model.pos).max() if pos.size else 0.0
    assert err < TOL, (where, 'positions differ', err)
    assert [sp.symbol for sp in traj.species] == model.symbols, (where, 'species')
    assert np.allclose(traj.get_lattice().matrix, model.matrix, atol=1e-12, rtol=0), (where, 'lattice')
    assert traj.time_step == model.time_step, (where, 'time_step')
    assert traj.metadata == model.metadata, (where, 'metadata')
    assert isinstance(traj, Trajectory), (where, type(traj))
    assert len(traj) == len(model.pos), (where, 'len')


def random_lattice(rng):
    kind = rng.integers(4)
    if kind == 0:
        return Lattice.cubic(float(rng.uniform(3, 12)))
    if kind == 1:
        return Lattice.from_parameters(
            *rng.uniform(3, 12, size=3), *rng.uniform(60, 120, size=3)
        )
    if kind == 2:
        return Lattice.hexagonal(float(rng.uniform(3, 8)), float(rng.uniform(3, 12)))
    return Lattice(np.eye(3) * rng.uniform(3, 10) + rng.uniform(-1, 1, size=(3, 3)))


def random_world(rng, n_frames=None, n_atoms=None):
    n_frames = n_frames or int(rng.integers(4, 40))
    n_atoms = n_atoms or int(rng.integers(2, 9))
    symbols = [str(rng.choice(['Li', 'S', 'P', 'O'])) for _ in range(n_atoms)]
    lattice = random_lattice(rng)
    start = rng.uniform(-1.5, 2.5, size=(1, n_atoms, 3))
    steps = rng.normal(0, 0.08, size=(n_frames, n_atoms, 3))
    steps[0] = 0
    coords = start + np.cumsum(steps, axis=0)
    if rng.random() < 0.3:
        # exercise the wrap edge: tiny negative numbers and exact integers
        coords[rng.integers(n_frames), rng.integers(n_atoms), rng.integers(3)] = -1e-17
        coords[rng.integers(n_frames), rng.integers(n_atoms), rng.integers(3)] = 1.0
    metadata = {'temperature': float(rng.integers(100, 900))} if rng.random() < 0.8 else {}
    time_step = float(rng.choice([1e-15, 2e-15]))
    traj = Trajectory(
        species=[Element(s) for s in symbols],
        coords=coords.copy(),
        lattice=lattice,
        time_step=time_step,
        metadata=dict(metadata),
    )
    model = Model(coords, symbols, lattice.matrix, time_step, metadata)
    return traj, model


def read_only_query(rng, traj):
    """Fire one random read-only query; the results are not interpreted here."""
    kind = int(rng.integers(12))
    if kind == 0:
        traj.positions
    elif kind == 1:
        traj.displacements
    elif kind == 2:
        traj.cumulative_displacements
    elif kind == 3:
        traj.distances_from_base_position()
    elif kind == 4:
        traj.mean_squared_displacement()
    elif kind == 5:
        traj.drift()
    elif kind == 6:
        traj.center_of_mass()
    elif kind == 7:
        traj.apply_drift_correction()
    elif kind == 8:
        traj.to_displacements()
    elif kind == 9:
        traj.to_positions()
    elif kind == 10:
        repr(traj)
        traj.get_lattice()
        traj.total_time
    elif kind == 11:
        traj.get_structure(int(rng.integers(len(traj))))


def random_slice(rng, n):
    def pick():
        return None if rng.random() < 0.25 else int(rng.integers(-n - 2, n + 3))

    step = None if rng.random() < 0.4 else int(rng.choice([-3, -2, -1, 1, 2, 3, 5]))
    return slice(pick(), pick(), step)


def run_history(rng, n_steps=40):
    """Random history over a small population of (trajectory, model) pairs."""
    pop = [random_world(rng)]
    for step in range(n_steps):
        i = int(rng.integers(len(pop)))
        traj, model = pop[i]
        op = int(rng.integers(8))
        where = f'step {step} op {op}'
        if op in (0, 1):
            read_only_query(rng, traj)
        elif op == 2:
            sl = random_slice(rng, len(traj))
            sel = list(range(*sl.indices(len(traj))))
            if not sel:
                try:
                    traj[sl]
                except Exception:
                    pass
                else:
                    raise AssertionError((where, 'empty slice did not raise'))
            else:
                new = traj[sl]
                pop.append((new, model.frames(sel)))
                check(new, pop[-1][1], where + ' slice')
        elif op == 3:
            idx = [int(k) for k in rng.integers(-len(traj), len(traj), size=rng.integers(1, 6))]
            new = traj[idx] if rng.random() < 0.5 else traj[np.array(idx)]
            pop.append((new, model.frames(idx)))
            check(new, pop[-1][1], where + ' list')
        elif op == 4:
            present = sorted(set(model.symbols))
            wanted = [str(s) for s in rng.choice(present, size=rng.integers(1, len(present) + 1), replace=False)]
            arg = wanted[0] if (len(wanted) == 1 and rng.random() < 0.5) else wanted
            if rng.random() < 0.3:
                arg = set(wanted)
            new = traj.filter(arg)
            pop.append((new, model.atoms(wanted)))
            check(new, pop[-1][1], where + ' filter')
        elif op == 5:
            n_parts = int(rng.integers(1, 6))
            equal = bool(rng.random() < 0.5)
            bounds = np.linspace(0, len(traj) - 1, n_parts + 1, dtype=int)
            windows = list(itertools.pairwise(bounds))
            if any(b - a <= 0 for a, b in windows):
                try:
                    traj.split(n_parts, equal_parts=equal)
                except Exception:
                    pass
                else:
                    raise AssertionError((where, 'empty split part did not raise'))
            else:
                parts = traj.split(n_parts, equal_parts=equal)
                assert len(parts) == n_parts, where
                size = min(b - a for a, b in windows)
                for part, (a, b) in zip(parts, windows):
                    if equal:
                        b = a + size
                    m = model.frames(list(range(a, b)))
                    check(part, m, where + ' split')
                    if rng.random() < 0.3:
                        pop.append((part, m))
        elif op == 6:
            # extend a derived copy with another derived copy of the same atoms
            a = list(range(*random_slice(rng, len(traj)).indices(len(traj)))) or [0]
            b = list(range(*random_slice(rng, len(traj)).indices(len(traj)))) or [0]
            left, right = traj[a], traj[b]
            for t in (left, right):
                if rng.random() < 0.5:
                    read_only_query(rng, t)
            ret = left.extend(right)
            assert ret is None
            m = Model(
                np.concatenate([model.pos[a], model.pos[b]]),
                model.symbols,
                model.matrix,
                model.time_step,
                model.metadata,
            )
            pop.append((left, m))
            check(left, m, where + ' extend')
            check(right, model.frames(b), where + ' extend-arg')
        elif op == 7:
            d = traj.displacements
            err = np.abs(d - model.displacements()).max()
            # a displacement of exactly +-0.5 may legitimately round either way
            amb = np.abs(np.abs(model.displacements()) - 0.5) < 1e-6
            assert err < TOL or amb.any(), (where, 'displacements', err)
        # after every step every live trajectory must still match its model
        for k, (t, m) in enumerate(pop):
            # checking is itself a query (it flips the storage mode), so only
            # do it for a random subset to keep the histories diverse
            if rng.random() < 0.3:
                check(t, m, where + f' pop[{k}]')
        if len(pop) > 8:
            del pop[int(rng.integers(len(pop)))]
    for k, (t, m) in enumerate(pop):
        check(t, m, f'final pop[{k}]')


def run_fuzz(seed=0, histories=60, n_steps=40):
    rng = np.random.default_rng(seed)
    for _ in range(histories):
        run_history(rng, n_steps=n_steps)


# --------------------------------------------------------------------------
# Change 3 specifics: derived quantities and extend() no longer switch the
# storage mode of the trajectories they only need to read
# --------------------------------------------------------------------------
import copy

from pymatgen.core.trajectory import Trajectory as PymatgenTrajectory


def bits(a, b):
    a, b = np.asarray(a), np.asarray(b)
    return a.dtype == b.dtype and a.shape == b.shape and np.array_equal(a, b)


QUERIES = {
    'cumulative_displacements': lambda t: t.cumulative_displacements,
    'distances_from_base_position': lambda t: t.distances_from_base_position(),
    'mean_squared_displacement': lambda t: t.mean_squared_displacement(),
    'drift': lambda t: t.drift(),
    'drift_fixed': lambda t: t.drift(fixed_species=t.species[0].symbol),
    'center_of_mass': lambda t: t.center_of_mass().coords,
    'center_of_mass_base': lambda t: t.center_of_mass().base_positions,
    'drift_corrected': lambda t: t.apply_drift_correction().coords,
    'drift_corrected_base': lambda t: t.apply_drift_correction().base_positions,
    'drift_corrected_fixed': lambda t: t.apply_drift_correction(fixed_species=t.species[0].symbol).positions,
}
# these go through filter(), which (as before) leaves the source in position mode
VIA_FILTER = {'drift_fixed', 'drift_corrected_fixed'}


def original_drift(t, fixed_species):
    return np.mean(t.filter(species=fixed_species).displacements, axis=1)[:, None, :]


def original_drift_correction(t, fixed_species):
    drift = original_drift(t, fixed_species)
    return Trajectory(
        species=t.species,
        coords=t.displacements - drift,  # the public property: switches `t`
        lattice=t.get_lattice(),
        metadata=t.metadata,
        coords_are_displacement=True,
        base_positions=t.base_positions,
        time_step=t.time_step,
    )


ORIGINAL = {
    'drift_fixed': lambda t: original_drift(t, t.species[0].symbol),
    'drift_corrected_fixed': lambda t: original_drift_correction(t, t.species[0].symbol).positions,
}


def specifics():
    rng = np.random.default_rng(31337)
    for case in range(150):
        traj, model = random_world(rng)
        mode = case % 4
        if mode == 1:
            traj.to_displacements()
        elif mode == 2:
            traj = traj.apply_drift_correction()  # born as displacements + base_positions
            model = None
        elif mode == 3:
            traj.to_positions()

        for name, query in QUERIES.items():
            # reference: the original call order, i.e. the trajectory itself is
            # switched to displacements first and the quantity derived from that
            twin = copy.deepcopy(traj)
            if name in VIA_FILTER:
                expected = ORIGINAL[name](twin)
            else:
                twin.to_displacements()
                expected = query(twin)

            coords, flag, saved = traj.coords, traj.coords_are_displacement, traj.coords.copy()
            got = query(traj)
            assert bits(got, expected), name
            assert not np.shares_memory(got, traj.coords), name
            if name not in VIA_FILTER:
                # nothing was converted, replaced or written to
                assert traj.coords is coords and traj.coords_are_displacement == flag, name
            assert bits(coords, saved), name
            # asking again gives the very same answer
            assert bits(query(traj), got), name
            if model is not None:
                check(traj, model, name)
            if rng.random() < 0.3:
                traj.to_displacements()
            elif rng.random() < 0.3:
                traj.to_positions()

        # interleaving with the public switches gives consistent answers
        p0 = traj.positions.copy()
        d0 = traj.displacements.copy()
        for name, query in QUERIES.items():
            query(traj)
            assert bits(traj.displacements, d0) or np.abs(traj.displacements - d0).max() < 1e-12, name
        assert pdiff(traj.positions, p0).max() < 1e-12
        assert traj.coords_are_displacement is False
        traj.displacements
        assert traj.coords_are_displacement is True

    # -- extend: result as before, argument left alone ------------------------
    for case in range(200):
        traj, model = random_world(rng)
        n = len(traj)
        a = sorted(rng.choice(n, size=rng.integers(1, n), replace=False).tolist())
        b = rng.choice(n, size=rng.integers(1, n), replace=True).tolist()
        left, right = traj[a], traj[b]
        if case % 2:
            right.to_displacements()
        if case % 3 == 0:
            left.to_displacements()
        if case % 5 == 0:
            right = right.apply_drift_correction()
        if case % 7 == 0:
            right = left  # self-extension
            b = a
        left_twin, right_twin = copy.deepcopy(left), copy.deepcopy(right)
        if right is left:
            right_twin = left_twin
        arg_coords, arg_flag, arg_copy = right.coords, right.coords_are_displacement, right.coords.copy()

        assert left.extend(right) is None
        PymatgenTrajectory.extend(left_twin, right_twin)  # the original code path

        assert bits(left.positions, left_twin.positions)
        assert len(left) == len(a) + len(b)
        if case % 5:
            check(left, Model(np.concatenate([model.pos[a], model.pos[b]]), model.symbols, model.matrix, model.time_step, model.metadata), 'extend')
        if right is not left:
            assert right.coords is arg_coords and right.coords_are_displacement == arg_flag
            assert bits(right.coords, arg_copy)
            assert bits(right.positions, right_twin.positions)
            assert not np.shares_memory(left.coords, right.coords)
        assert left.metadata == left_twin.metadata and left.time_step == left_twin.time_step

    # incompatible trajectories are still refused, and nothing is modified
    t1, _ = random_world(rng, n_frames=5, n_atoms=3)
    t2 = Trajectory(species=[Element('Na')] * 3, coords=t1.positions.copy(), lattice=t1.get_lattice(), time_step=t1.time_step)
    t3 = Trajectory(species=t1.species, coords=t1.positions.copy(), lattice=t1.get_lattice(), time_step=7.0)
    t1.to_displacements()
    for other in (t2, t3):
        other.to_displacements()
        before = (t1.coords, other.coords)
        try:
            t1.extend(other)
        except ValueError:
            pass
        else:
            raise AssertionError('incompatible extend accepted')
        assert t1.coords is before[0] and other.coords is before[1]
        assert t1.coords_are_displacement and other.coords_are_displacement


if __name__ == '__main__':
    run_fuzz(seed=33, histories=60)
    specifics()
    print('change 3: OK')
