"""Implementation-agnostic C15 check: random histories against a numpy oracle."""
import copy
import pickle
import sys
import warnings
from itertools import pairwise

import numpy as np
from pymatgen.core import Element, Lattice, Species

from gemdat import Trajectory

warnings.filterwarnings('ignore')
TOL = 1e-9


def circ_close(a, b, tol=TOL):
    a = np.asarray(a, dtype=float)
    b = np.asarray(b, dtype=float)
    if a.shape != b.shape:
        return False
    d = np.abs(a - b)
    d = np.minimum(d, 1 - d)
    return bool(np.all(np.abs(d) <= tol))


class Model:
    """Oracle: wrapped positions + the invariants that must travel along."""

    def __init__(self, P, species, lattice, time_step, metadata):
        self.P = np.mod(np.asarray(P, dtype=float), 1)
        self.species = list(species)
        self.lattice = np.array(lattice, dtype=float)
        self.time_step = time_step
        self.metadata = metadata

    def check(self, t, where):
        assert type(t) is Trajectory, (where, type(t))
        pos = t.positions
        assert pos.shape == self.P.shape, (where, pos.shape, self.P.shape)
        assert np.all(pos >= 0) and np.all(pos < 1), (where, 'positions outside [0, 1)')
        assert circ_close(pos, self.P), (where, 'positions differ')
        assert not t.coords_are_displacement, where
        assert list(t.species) == self.species, (where, 'species')
        assert np.allclose(t.get_lattice().matrix, self.lattice, rtol=0, atol=1e-12), (where, 'lattice')
        assert np.allclose(np.asarray(t.lattice), self.lattice, rtol=0, atol=1e-12), (where, 'lattice attr')
        assert t.time_step == self.time_step, (where, 'time_step')
        assert sorted(t.metadata) == sorted(self.metadata), (where, 'metadata keys')
        for k, v in self.metadata.items():
            assert np.array_equal(np.asarray(t.metadata[k]), np.asarray(v)), (where, 'metadata', k)
        assert len(t) == len(self.P), where

    def disp(self):
        d = np.diff(self.P, axis=0, prepend=self.P[:1])
        return d - np.round(d)


def make(rng):
    kind = int(rng.integers(0, 3))
    if kind == 0:
        lat = Lattice.cubic(float(rng.uniform(2, 10)))
    elif kind == 1:
        lat = Lattice.from_parameters(*rng.uniform(3, 9, 3), *rng.uniform(65, 115, 3))
    else:
        lat = Lattice(rng.normal(size=(3, 3)) * 2 + np.eye(3) * 7)
    M, N = int(rng.integers(2, 16)), int(rng.integers(1, 8))
    names = [['Li', 'S', 'Si', 'P'][i] for i in rng.integers(0, 4, N)]
    cls = Species if rng.integers(0, 2) else Element
    species = [cls(n) for n in names]
    coords = rng.uniform(-1, 2, (N, 3)) + np.cumsum(rng.normal(scale=0.12, size=(M, N, 3)), axis=0)
    if rng.integers(0, 2):
        coords[int(rng.integers(0, M)), int(rng.integers(0, N)), int(rng.integers(0, 3))] = rng.choice(
            [0.0, 1.0, -1e-17, 2.0, -1.0]
        )
    metadata = {'temperature': 300.0, 'series': rng.normal(size=M), 'per_atom': rng.normal(size=N)}
    t = Trajectory(species=species, coords=coords.copy(), lattice=lat, time_step=1e-15, metadata=metadata)
    return t, Model(coords, species, lat.matrix, 1e-15, metadata)


def read_only_queries(rng, t, m, where):
    q = int(rng.integers(0, 12))
    if q == 0:
        d = t.displacements
        assert np.allclose(d, m.disp(), rtol=0, atol=TOL), (where, 'displacements')
        assert t.coords_are_displacement
    elif q == 1:
        t.to_displacements()
    elif q == 2:
        t.to_positions()
    elif q == 3:
        dist = t.distances_from_base_position()
        cart = np.cumsum(m.disp(), axis=0) @ m.lattice
        assert np.allclose(dist, np.linalg.norm(cart, axis=2).T, rtol=1e-9, atol=1e-9), (where, 'distances')
    elif q == 4:
        cd = t.cumulative_displacements
        assert np.allclose(cd, np.cumsum(m.disp(), axis=0), rtol=0, atol=TOL), (where, 'cumdisp')
    elif q == 5:
        dr = t.drift()
        assert np.allclose(dr, m.disp().mean(axis=1)[:, None, :], rtol=0, atol=TOL), (where, 'drift')
    elif q == 6:
        msd = t.mean_squared_displacement()
        assert msd.shape == (m.P.shape[1], m.P.shape[0])
    elif q == 7:
        mt = t.metrics()
        mt.speed()
        mt.tracer_diffusivity()
        mt.particle_density()
    elif q == 8:
        vol = t.to_volume(resolution=0.8)
        assert int(np.asarray(vol.data).sum()) == m.P.shape[0] * m.P.shape[1], (where, 'volume count')
    elif q == 9:
        i = int(rng.integers(0, len(m.P)))
        s = t[i]
        assert circ_close(s.frac_coords, m.P[i]), (where, 'structure')
    elif q == 10:
        t.center_of_mass()
        t.apply_drift_correction()
    elif q == 11:
        repr(t)
        t.total_time
        t.get_lattice()


def run_history(seed, n_ops=25):
    rng = np.random.default_rng(seed)
    pool = [make(rng)]
    for opno in range(n_ops):
        where = (seed, opno)
        t, m = pool[int(rng.integers(0, len(pool)))]
        for _ in range(int(rng.integers(0, 3))):
            read_only_queries(rng, t, m, where)
        op = int(rng.integers(0, 8))
        if op == 0:  # filter
            sel = sorted({s.symbol for s in m.species})
            sel = [sel[i] for i in rng.integers(0, len(sel), int(rng.integers(1, 3)))]
            mask = [s.symbol in sel for s in m.species]
            new = t.filter(sel if len(sel) > 1 else sel[0])
            nm = Model(m.P[:, mask], [s for s, k in zip(m.species, mask) if k], m.lattice, m.time_step, m.metadata)
            nm.check(new, where + ('filter',))
            pool.append((new, nm))
        elif op == 1:  # slice
            M = len(m.P)
            while True:
                sl = slice(*[None if rng.integers(0, 3) == 0 else int(rng.integers(-M - 2, M + 3)) for _ in range(2)],
                           [None, 1, 2, 3, -1, -2][int(rng.integers(0, 6))])
                if len(range(*sl.indices(M))) > 0:
                    break
            new = t[sl]
            nm = Model(m.P[sl], m.species, m.lattice, m.time_step, m.metadata)
            nm.check(new, where + ('slice', sl))
            pool.append((new, nm))
        elif op == 2:  # index list
            M = len(m.P)
            idx = [int(i) for i in rng.integers(-M, M, int(rng.integers(1, 5)))]
            new = t[idx if rng.integers(0, 2) else np.array(idx)]
            nm = Model(m.P[idx], m.species, m.lattice, m.time_step, m.metadata)
            nm.check(new, where + ('list', idx))
            pool.append((new, nm))
        elif op == 3:  # split
            M = len(m.P)
            n_parts = int(rng.integers(1, max(2, M - 1)))
            eq = bool(rng.integers(0, 2))
            edges = np.linspace(0, M - 1, n_parts + 1, dtype=int)
            if any(b <= a for a, b in pairwise(edges)):
                continue
            parts = t.split(n_parts, equal_parts=eq)
            assert isinstance(parts, list) and len(parts) == n_parts
            size = min(b - a for a, b in pairwise(edges))
            for part, (a, b) in zip(parts, pairwise(edges)):
                stop = a + size if eq else b
                nm = Model(m.P[a:stop], m.species, m.lattice, m.time_step, m.metadata)
                nm.check(part, where + ('split', n_parts, eq))
            pool.append((parts[0], Model(m.P[edges[0]:(edges[0] + size if eq else edges[1])], m.species, m.lattice, m.time_step, m.metadata)))
        elif op == 4:  # extend
            how = int(rng.integers(0, 3))
            if how == 0:
                other, om = t, m
            elif how == 1:
                other, om = copy.deepcopy(t), Model(m.P, m.species, m.lattice, m.time_step, m.metadata)
            else:
                other = t[::-1]
                om = Model(m.P[::-1], m.species, m.lattice, m.time_step, m.metadata)
            if rng.integers(0, 2):
                other.to_displacements()
            P_other = om.P.copy()
            t.extend(other)
            m.P = np.concatenate([m.P, P_other])
            m.check(t, where + ('extend', how))
            if other is not t:
                om.check(other, where + ('extend-other',))
        elif op == 5:  # pickle / deepcopy
            new = pickle.loads(pickle.dumps(t)) if rng.integers(0, 2) else copy.deepcopy(t)
            nm = Model(m.P, m.species, m.lattice, m.time_step, m.metadata)
            nm.check(new, where + ('copy',))
            pool.append((new, nm))
        elif op == 6:
            pool.append(make(rng))
        # everything in the pool must still match its oracle
        for tt, mm in pool:
            if rng.integers(0, 3) == 0:
                mm.check(tt, where + ('pool',))
        if len(pool) > 6:
            pool.pop(int(rng.integers(0, len(pool))))
    for tt, mm in pool:
        mm.check(tt, (seed, 'final'))


def run_common(n=120):
    for seed in range(n):
        run_history(seed)
    print(f'common: {n} random histories OK')


# ---------------------------------------------------------------- change 2
def ref_distances(P, lattice):
    d = np.diff(P, axis=0, prepend=P[:1])
    d = d - np.round(d)
    return np.linalg.norm(np.cumsum(d, axis=0) @ lattice, axis=2).T


def specific():
    rng = np.random.default_rng(11)
    lat = Lattice.from_parameters(4, 5, 6, 80, 95, 110)
    coords = rng.uniform(0, 1, (2, 3)) + np.cumsum(rng.normal(scale=0.1, size=(12, 2, 3)), axis=0)
    t = Trajectory(species=[Element('Li'), Element('S')], coords=coords, lattice=lat, time_step=1e-15, metadata={'temperature': 1})
    P = np.mod(coords, 1)

    a = t.distances_from_base_position()
    b = t.distances_from_base_position()
    assert a is not b and np.array_equal(a, b) and a.strides == b.strides
    assert np.allclose(a, ref_distances(P, lat.matrix), atol=1e-9)
    # handed-out arrays are private: scribbling on them changes nothing
    a[:] = -1
    b[:] = 7
    c = t.distances_from_base_position()
    assert np.allclose(c, ref_distances(P, lat.matrix), atol=1e-9)
    cd = t.cumulative_displacements
    cd += 100
    assert np.allclose(t.cumulative_displacements, cd - 100, atol=1e-12)
    m1 = t.mean_squared_displacement()
    m1 *= 0
    m2 = t.mean_squared_displacement()
    assert np.any(m2 != 0)
    info = t.query_cache_info()
    assert info['hits'] > 0, info

    # re-assignment invalidates, and so do in-place edits of the live array
    t.to_positions()
    assert t.query_cache_info()['entries'] == 0
    assert np.allclose(t.distances_from_base_position(), ref_distances(P, lat.matrix), atol=1e-9)
    live = t.displacements  # the live storage
    live[3, 0, 0] += 0.05
    P2 = np.mod(P[0] + np.cumsum(live, axis=0), 1)
    got = t.distances_from_base_position()
    assert np.allclose(got, ref_distances(P2, lat.matrix), atol=1e-9), 'stale result after in-place edit'
    assert circ_close(t.positions, P2)

    # interleaving with mode switches and derived trajectories
    for _ in range(20):
        q = int(rng.integers(0, 5))
        if q == 0:
            t.positions
        elif q == 1:
            t.displacements
        elif q == 2:
            assert np.allclose(t.distances_from_base_position(), ref_distances(P2, lat.matrix), atol=1e-9)
        elif q == 3:
            sub = t[2:9:2]
            assert np.allclose(sub.distances_from_base_position(), ref_distances(P2[2:9:2], lat.matrix), atol=1e-9)
            assert sub.query_cache_info()['hits'] == 0
        else:
            f = t.filter('S')
            assert np.allclose(f.distances_from_base_position(), ref_distances(P2[:, [1]], lat.matrix), atol=1e-9)

    # extend changes the answer
    before = t.distances_from_base_position()
    t.extend(t[::-1])
    P3 = np.concatenate([P2, P2[::-1]])
    after = t.distances_from_base_position()
    assert after.shape == (2, 24) and np.allclose(after, ref_distances(P3, lat.matrix), atol=1e-9)
    assert np.allclose(after[:, :12], before, atol=1e-9)

    # lattice re-assignment is seen as well
    t.distances_from_base_position()
    t.lattice = np.eye(3) * 2.0
    assert np.allclose(t.distances_from_base_position(), ref_distances(P3, np.eye(3) * 2.0), atol=1e-9)
    t.lattice[0, 0] = 3.0  # in place
    assert np.allclose(t.distances_from_base_position(), ref_distances(P3, np.diag([3.0, 2, 2])), atol=1e-9)

    # memo never reaches pickles / copies
    t.distances_from_base_position()
    assert '_query_cache' in vars(t)
    assert '_query_cache' not in t.__getstate__()
    for clone in (pickle.loads(pickle.dumps(t)), copy.deepcopy(t), copy.copy(t)):
        assert '_query_cache' not in vars(clone)
        assert np.array_equal(clone.distances_from_base_position(), t.distances_from_base_position())
    assert b'_query_cache' not in pickle.dumps(t) and b'QueryCache' not in pickle.dumps(t)

    # metrics on top of it
    mt = t.metrics()
    assert np.allclose(mt.speed(), np.diff(t.distances_from_base_position(), prepend=0))
    print('specific: OK')


if __name__ == '__main__':
    run_common(120)
    specific()
    print('ALL OK')
