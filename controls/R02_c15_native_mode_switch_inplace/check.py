"""Shared oracle harness for the C15 checks (copied verbatim into every check.py).

Keeps, for every live trajectory, an independent numpy model (wrapped
positions, species symbols, lattice matrix, time step, metadata) and replays
random histories of API calls, comparing after every step.
"""
import itertools
import warnings

import numpy as np
from pymatgen.core import Element, Lattice

from gemdat import Trajectory

warnings.filterwarnings('ignore')

TOL = 1e-9


def pdiff(a, b):
    d = np.asarray(a) - np.asarray(b)
    return np.abs(d - np.round(d))


class Model:
    def __init__(self, pos, symbols, matrix, time_step, metadata):
        self.pos = np.mod(pos, 1.0)
        self.symbols = list(symbols)
        self.matrix = np.array(matrix, dtype=float)
        self.time_step = time_step
        self.metadata = dict(metadata)

    def frames(self, sel):
        return Model(self.pos[sel], self.symbols, self.matrix, self.time_step, self.metadata)

    def atoms(self, wanted):
        mask = np.array([s in wanted for s in self.symbols], dtype=bool)
        return Model(
            self.pos[:, mask],
            [s for s in self.symbols if s in wanted],
            self.matrix,
            self.time_step,
            self.metadata,
        )

    def displacements(self):
        d = np.diff(self.pos, axis=0, prepend=self.pos[:1])
        return d - np.round(d)


def check(traj, model, where):
    pos = traj.positions
    assert pos.shape == model.pos.shape, (where, pos.shape, model.pos.shape)
    assert (pos >= 0).all() and (pos < 1).all(), (where, 'positions not in [0, 1)')
    err = pdiff(pos, model.pos).max() if pos.size else 0.0
    assert err < TOL, (where, 'positions differ', err)
    assert [sp.symbol for sp in traj.species] == model.symbols, (where, 'species')
    assert np.allclose(traj.get_lattice().matrix, model.matrix, atol=1e-12, rtol=0), (where, 'lattice')
    assert traj.time_step == model.time_step, (where, 'time_step')
    assert traj.metadata == model.metadata, (where, 'metadata')
    assert isinstance(traj, Trajectory), (where, type(traj))
    assert len(traj) == len(model.pos), (where, 'len')


def random_lattice(rng):
    kind = rng.integers(4)
    if kind == 0:
        return Lattice.cubic(float(rng.uniform(3, 12)))
    if kind == 1:
        return Lattice.from_parameters(
            *rng.uniform(3, 12, size=3), *rng.uniform(60, 120, size=3)
        )
    if kind == 2:
        return Lattice.hexagonal(float(rng.uniform(3, 8)), float(rng.uniform(3, 12)))
    return Lattice(np.eye(3) * rng.uniform(3, 10) + rng.uniform(-1, 1, size=(3, 3)))


def random_world(rng, n_frames=None, n_atoms=None):
    n_frames = n_frames or int(rng.integers(4, 40))
    n_atoms = n_atoms or int(rng.integers(2, 9))
    symbols = [str(rng.choice(['Li', 'S', 'P', 'O'])) for _ in range(n_atoms)]
    lattice = random_lattice(rng)
    start = rng.uniform(-1.5, 2.5, size=(1, n_atoms, 3))
    steps = rng.normal(0, 0.08, size=(n_frames, n_atoms, 3))
    steps[0] = 0
    coords = start + np.cumsum(steps, axis=0)
    if rng.random() < 0.3:
        # exercise the wrap edge: tiny negative numbers and exact integers
        coords[rng.integers(n_frames), rng.integers(n_atoms), rng.integers(3)] = -1e-17
        coords[rng.integers(n_frames), rng.integers(n_atoms), rng.integers(3)] = 1.0
    metadata = {'temperature': float(rng.integers(100, 900))} if rng.random() < 0.8 else {}
    time_step = float(rng.choice([1e-15, 2e-15]))
    traj = Trajectory(
        species=[Element(s) for s in symbols],
        coords=coords.copy(),
        lattice=lattice,
        time_step=time_step,
        metadata=dict(metadata),
    )
    model = Model(coords, symbols, lattice.matrix, time_step, metadata)
    return traj, model


def read_only_query(rng, traj):
    """Fire one random read-only query; the results are not interpreted here."""
    kind = int(rng.integers(12))
    if kind == 0:
        traj.positions
    elif kind == 1:
        traj.displacements
    elif kind == 2:
        traj.cumulative_displacements
    elif kind == 3:
        traj.distances_from_base_position()
    elif kind == 4:
        traj.mean_squared_displacement()
    elif kind == 5:
        traj.drift()
    elif kind == 6:
        traj.center_of_mass()
    elif kind == 7:
        traj.apply_drift_correction()
    elif kind == 8:
        traj.to_displacements()
    elif kind == 9:
        traj.to_positions()
    elif kind == 10:
        repr(traj)
        traj.get_lattice()
        traj.total_time
    elif kind == 11:
        traj.get_structure(int(rng.integers(len(traj))))


def random_slice(rng, n):
    def pick():
        return None if rng.random() < 0.25 else int(rng.integers(-n - 2, n + 3))

    step = None if rng.random() < 0.4 else int(rng.choice([-3, -2, -1, 1, 2, 3, 5]))
    return slice(pick(), pick(), step)


def run_history(rng, n_steps=40):
    """Random history over a small population of (trajectory, model) pairs."""
    pop = [random_world(rng)]
    for step in range(n_steps):
        i = int(rng.integers(len(pop)))
        traj, model = pop[i]
        op = int(rng.integers(8))
        where = f'step {step} op {op}'
        if op in (0, 1):
            read_only_query(rng, traj)
        elif op == 2:
            sl = random_slice(rng, len(traj))
            sel = list(range(*sl.indices(len(traj))))
            if not sel:
                try:
                    traj[sl]
                except Exception:
                    pass
                else:
                    raise AssertionError((where, 'empty slice did not raise'))
            else:
                new = traj[sl]
                pop.append((new, model.frames(sel)))
                check(new, pop[-1][1], where + ' slice')
        elif op == 3:
            idx = [int(k) for k in rng.integers(-len(traj), len(traj), size=rng.integers(1, 6))]
            new = traj[idx] if rng.random() < 0.5 else traj[np.array(idx)]
            pop.append((new, model.frames(idx)))
            check(new, pop[-1][1], where + ' list')
        elif op == 4:
            present = sorted(set(model.symbols))
            wanted = [str(s) for s in rng.choice(present, size=rng.integers(1, len(present) + 1), replace=False)]
            arg = wanted[0] if (len(wanted) == 1 and rng.random() < 0.5) else wanted
            if rng.random() < 0.3:
                arg = set(wanted)
            new = traj.filter(arg)
            pop.append((new, model.atoms(wanted)))
            check(new, pop[-1][1], where + ' filter')
        elif op == 5:
            n_parts = int(rng.integers(1, 6))
            equal = bool(rng.random() < 0.5)
            bounds = np.linspace(0, len(traj) - 1, n_parts + 1, dtype=int)
            windows = list(itertools.pairwise(bounds))
            if any(b - a <= 0 for a, b in windows):
                try:
                    traj.split(n_parts, equal_parts=equal)
                except Exception:
                    pass
                else:
                    raise AssertionError((where, 'empty split part did not raise'))
            else:
                parts = traj.split(n_parts, equal_parts=equal)
                assert len(parts) == n_parts, where
                size = min(b - a for a, b in windows)
                for part, (a, b) in zip(parts, windows):
                    if equal:
                        b = a + size
                    m = model.frames(list(range(a, b)))
                    check(part, m, where + ' split')
                    if rng.random() < 0.3:
                        pop.append((part, m))
        elif op == 6:
            # extend a derived copy with another derived copy of the same atoms
            a = list(range(*random_slice(rng, len(traj)).indices(len(traj)))) or [0]
            b = list(range(*random_slice(rng, len(traj)).indices(len(traj)))) or [0]
            left, right = traj[a], traj[b]
            for t in (left, right):
                if rng.random() < 0.5:
                    read_only_query(rng, t)
            ret = left.extend(right)
            assert ret is None
            m = Model(
                np.concatenate([model.pos[a], model.pos[b]]),
                model.symbols,
                model.matrix,
                model.time_step,
                model.metadata,
            )
            pop.append((left, m))
            check(left, m, where + ' extend')
            check(right, model.frames(b), where + ' extend-arg')
        elif op == 7:
            d = traj.displacements
            err = np.abs(d - model.displacements()).max()
            # a displacement of exactly +-0.5 may legitimately round either way
            amb = np.abs(np.abs(model.displacements()) - 0.5) < 1e-6
            assert err < TOL or amb.any(), (where, 'displacements', err)
        # after every step every live trajectory must still match its model
        for k, (t, m) in enumerate(pop):
            # checking is itself a query (it flips the storage mode), so only
            # do it for a random subset to keep the histories diverse
            if rng.random() < 0.3:
                check(t, m, where + f' pop[{k}]')
        if len(pop) > 8:
            del pop[int(rng.integers(len(pop)))]
    for k, (t, m) in enumerate(pop):
        check(t, m, f'final pop[{k}]')


def run_fuzz(seed=0, histories=60, n_steps=40):
    rng = np.random.default_rng(seed)
    for _ in range(histories):
        run_history(rng, n_steps=n_steps)


# --------------------------------------------------------------------------
# Change 2 specifics: in-house to_positions / to_displacements versus the
# original (pymatgen conversion + unconditional np.mod), bit for bit
# --------------------------------------------------------------------------
import copy
import pickle

from pymatgen.core.trajectory import Trajectory as PymatgenTrajectory


class Reference(PymatgenTrajectory):
    """The original gemdat behaviour, spelled out."""

    def to_positions(self):
        super().to_positions()
        coords = np.mod(self.coords, 1)
        coords[coords == 1] = 0
        self.coords = coords

    @property
    def positions(self):
        self.to_positions()
        return self.coords

    @property
    def displacements(self):
        self.to_displacements()
        return self.coords


def same_bits(a, b):
    a, b = np.asarray(a), np.asarray(b)
    return (
        a.dtype == b.dtype
        and a.shape == b.shape
        and np.array_equal(a, b)
        and np.array_equal(np.signbit(a), np.signbit(b))
    )


def specifics():
    rng = np.random.default_rng(2024)
    for case in range(300):
        n_frames, n_atoms = int(rng.integers(1, 30)), int(rng.integers(1, 6))
        dtype = rng.choice([np.float64, np.float64, np.float32])
        raw = (rng.uniform(-2, 3, size=(1, n_atoms, 3)) + np.cumsum(rng.normal(0, 0.2, size=(n_frames, n_atoms, 3)), axis=0)).astype(dtype)
        if rng.random() < 0.5:
            raw[rng.integers(n_frames), rng.integers(n_atoms), rng.integers(3)] = -1e-17
            raw[rng.integers(n_frames), rng.integers(n_atoms), rng.integers(3)] = -0.0
            raw[rng.integers(n_frames), rng.integers(n_atoms), rng.integers(3)] = 2.0
        lattice = random_lattice(rng)
        kwargs = dict(species=[Element('Li')] * n_atoms, lattice=lattice, time_step=1e-15)
        if rng.random() < 0.3:
            # born in displacement mode, with steps that are not minimum-image
            kwargs.update(coords_are_displacement=True, base_positions=raw[0].copy())
        new = Trajectory(coords=raw.copy(), metadata={'temperature': 1}, **kwargs)
        ref = Reference(coords=raw.copy(), **kwargs)

        snapshots = []
        for step in range(25):
            op = int(rng.integers(9))
            if op == 0:
                a, b = new.positions, ref.positions
                snapshots.append((a, a.copy()))
            elif op == 1:
                a, b = new.displacements, ref.displacements
                snapshots.append((a, a.copy()))
            elif op == 2:
                new.to_positions(), ref.to_positions()
            elif op == 3:
                new.to_displacements(), ref.to_displacements()
            elif op == 4:
                # user replaces the storage
                fresh = rng.uniform(-1, 2, size=new.coords.shape).astype(dtype)
                new.coords, ref.coords = fresh.copy(), fresh.copy()
            elif op == 5:
                # user scribbles over the storage in place (same for both)
                shift = float(rng.choice([0.75, -0.4, 1.0]))
                snapshots.clear()  # those may alias the storage the user now writes to
                new.coords += dtype(shift)
                ref.coords += dtype(shift)
            elif op == 6:
                k = int(rng.integers(1, 4))
                add = rng.uniform(-1, 2, size=(k, n_atoms, 3)).astype(dtype)
                other_new = Trajectory(coords=add.copy(), species=kwargs['species'], lattice=lattice, time_step=1e-15)
                other_ref = Reference(coords=add.copy(), species=kwargs['species'], lattice=lattice, time_step=1e-15)
                if rng.random() < 0.5:
                    other_new.to_displacements(), other_ref.to_displacements()
                new.extend(other_new), ref.extend(other_ref)
                assert same_bits(other_new.coords, other_ref.coords)
            elif op == 7:
                clone = pickle.loads(pickle.dumps(new)) if rng.random() < 0.5 else copy.deepcopy(new)
                assert '_wrapped_coords' not in clone.__dict__
                assert same_bits(clone.coords, new.coords)
                assert clone.coords_are_displacement == new.coords_are_displacement
                assert same_bits(clone.positions, ref.positions)
                new.to_positions()
            elif op == 8:
                sl = new[::2]
                assert same_bits(sl.positions, ref.positions[::2])
            assert new.coords_are_displacement == ref.coords_are_displacement, (case, step, op)
            assert same_bits(new.coords, ref.coords), (case, step, op)
            assert same_bits(new.base_positions, ref.base_positions), (case, step, op)

        # arrays handed out earlier were never modified behind the caller's back
        for handed_out, saved in snapshots:
            assert same_bits(handed_out, saved)

    # repeated access: same values; wrapped values in [0, 1); -1e-17 -> 0.0
    t = Trajectory(
        species=[Element('Li')],
        coords=np.array([[[-1e-17, 1.0, 2.5]], [[0.25, -0.25, 1 - 1e-17]]]),
        lattice=np.eye(3) * 4,
        time_step=1e-15,
    )
    p1 = t.positions
    p2 = t.positions
    assert same_bits(p1, p2) and same_bits(p1, [[[0.0, 0.0, 0.5]], [[0.25, 0.75, 0.0]]])
    # the user's input array is never written to and never handed out
    user = np.array([[[0.1, 0.2, 0.3]], [[0.2, 0.3, 0.4]]])
    keep = user.copy()
    t = Trajectory(species=[Element('Li')], coords=user, lattice=np.eye(3) * 4, time_step=1e-15)
    out = t.positions
    assert not np.shares_memory(out, user)
    t.displacements, t.positions, t.displacements
    assert same_bits(user, keep)
    # objects that never ran the new code (e.g. restored from an old cache file)
    legacy = object.__new__(Trajectory)
    legacy.__dict__.update({k: v for k, v in t.__dict__.items() if k != '_wrapped_coords'})
    legacy.to_positions()
    assert same_bits(legacy.positions, t.positions)
    # integer / list storage keeps working (delegated to the generic path)
    ti = Trajectory(species=[Element('Li')], coords=np.zeros((3, 1, 3), dtype=int), lattice=np.eye(3), time_step=1.0)
    ri = Reference(species=[Element('Li')], coords=np.zeros((3, 1, 3), dtype=int), lattice=np.eye(3), time_step=1.0)
    assert same_bits(ti.displacements, ri.displacements) and same_bits(ti.positions, ri.positions)
    ti.coords = [[[0.5, 1.5, -0.5]], [[0.75, 0.0, 0.0]]]
    ri.coords = [[[0.5, 1.5, -0.5]], [[0.75, 0.0, 0.0]]]
    assert same_bits(ti.positions, ri.positions)
    ti.coords = [[[0.5, 1.5, -0.5]], [[0.75, 0.0, 0.0]]]
    ri.coords = [[[0.5, 1.5, -0.5]], [[0.75, 0.0, 0.0]]]
    assert same_bits(ti.displacements, ri.displacements) and same_bits(ti.positions, ri.positions)


if __name__ == '__main__':
    run_fuzz(seed=22, histories=60)
    specifics()
    print('change 2: OK')
