"""Shared oracle harness for the C15 checks (copied verbatim into every check.py).

Keeps, for every live trajectory, an independent numpy model (wrapped
positions, species symbols, lattice matrix, time step, metadata) and replays
random histories of API calls, comparing after every step.
"""
import itertools
import warnings

import numpy as np
from pymatgen.core import Element, Lattice

from gemdat import Trajectory

warnings.filterwarnings('ignore')

TOL = 1e-9


def pdiff(a, b):
    d = np.asarray(a) - np.asarray(b)
    return np.abs(d - np.round(d))


class Model:
    def __init__(self, pos, symbols, matrix, time_step, metadata):
        self.pos = np.mod(pos, 1.0)
        self.symbols = list(symbols)
        self.matrix = np.array(matrix, dtype=float)
        self.time_step = time_step
        self.metadata = dict(metadata)

    def frames(self, sel):
        return Model(self.pos[sel], self.symbols, self.matrix, self.time_step, self.metadata)

    def atoms(self, wanted):
        mask = np.array([s in wanted for s in self.symbols], dtype=bool)
        return Model(
            self.pos[:, mask],
            [s for s in self.symbols if s in wanted],
            self.matrix,
            self.time_step,
            self.metadata,
        )

    def displacements(self):
        d = np.diff(self.pos, axis=0, prepend=self.pos[:1])
        return d - np.round(d)


def check(traj, model, where):
    pos = traj.positions
    assert pos.shape == model.pos.shape, (where, pos.shape, model.pos.shape)
    assert (pos >= 0).all() and (pos < 1).all(), (where, 'positions not in [0, 1)')
    err = pdiff(pos, model.pos).max() if pos.size else 0.0
    assert err < TOL, (where, 'positions differ', err)
    assert [sp.symbol for sp in traj.species] == model.symbols, (where, 'species')
    assert np.allclose(traj.get_lattice().matrix, model.matrix, atol=1e-12, rtol=0), (where, 'lattice')
    assert traj.time_step == model.time_step, (where, 'time_step')
    assert traj.metadata == model.metadata, (where, 'metadata')
    assert isinstance(traj, Trajectory), (where, type(traj))
    assert len(traj) == len(model.pos), (where, 'len')


def random_lattice(rng):
    kind = rng.integers(4)
    if kind == 0:
        return Lattice.cubic(float(rng.uniform(3, 12)))
    if kind == 1:
        return Lattice.from_parameters(
            *rng.uniform(3, 12, size=3), *rng.uniform(60, 120, size=3)
        )
    if kind == 2:
        return Lattice.hexagonal(float(rng.uniform(3, 8)), float(rng.uniform(3, 12)))
    return Lattice(np.eye(3) * rng.uniform(3, 10) + rng.uniform(-1, 1, size=(3, 3)))


def random_world(rng, n_frames=None, n_atoms=None):
    n_frames = n_frames or int(rng.integers(4, 40))
    n_atoms = n_atoms or int(rng.integers(2, 9))
    symbols = [str(rng.choice(['Li', 'S', 'P', 'O'])) for _ in range(n_atoms)]
    lattice = random_lattice(rng)
    start = rng.uniform(-1.5, 2.5, size=(1, n_atoms, 3))
    steps = rng.normal(0, 0.08, size=(n_frames, n_atoms, 3))
    steps[0] = 0
    coords = start + np.cumsum(steps, axis=0)
    if rng.random() < 0.3:
        # exercise the wrap edge: tiny negative numbers and exact integers
        coords[rng.integers(n_frames), rng.integers(n_atoms), rng.integers(3)] = -1e-17
        coords[rng.integers(n_frames), rng.integers(n_atoms), rng.integers(3)] = 1.0
    metadata = {'temperature': float(rng.integers(100, 900))} if rng.random() < 0.8 else {}
    time_step = float(rng.choice([1e-15, 2e-15]))
    traj = Trajectory(
        species=[Element(s) for s in symbols],
        coords=coords.copy(),
        lattice=lattice,
        time_step=time_step,
        metadata=dict(metadata),
    )
    model = Model(coords, symbols, lattice.matrix, time_step, metadata)
    return traj, model


def read_only_query(rng, traj):
    """Fire one random read-only query; the results are not interpreted here."""
    kind = int(rng.integers(12))
    if kind == 0:
        traj.positions
    elif kind == 1:
        traj.displacements
    elif kind == 2:
        traj.cumulative_displacements
    elif kind == 3:
        traj.distances_from_base_position()
    elif kind == 4:
        traj.mean_squared_displacement()
    elif kind == 5:
        traj.drift()
    elif kind == 6:
        traj.center_of_mass()
    elif kind == 7:
        traj.apply_drift_correction()
    elif kind == 8:
        traj.to_displacements()
    elif kind == 9:
        traj.to_positions()
    elif kind == 10:
        repr(traj)
        traj.get_lattice()
        traj.total_time
    elif kind == 11:
        traj.get_structure(int(rng.integers(len(traj))))


def random_slice(rng, n):
    def pick():
        return None if rng.random() < 0.25 else int(rng.integers(-n - 2, n + 3))

    step = None if rng.random() < 0.4 else int(rng.choice([-3, -2, -1, 1, 2, 3, 5]))
    return slice(pick(), pick(), step)


def run_history(rng, n_steps=40):
    """Random history over a small population of (trajectory, model) pairs."""
    pop = [random_world(rng)]
    for step in range(n_steps):
        i = int(rng.integers(len(pop)))
        traj, model = pop[i]
        op = int(rng.integers(8))
        where = f'step {step} op {op}'
        if op in (0, 1):
            read_only_query(rng, traj)
        elif op == 2:
            sl = random_slice(rng, len(traj))
            sel = list(range(*sl.indices(len(traj))))
            if not sel:
                try:
                    traj[sl]
                except Exception:
                    pass
                else:
                    raise AssertionError((where, 'empty slice did not raise'))
            else:
                new = traj[sl]
                pop.append((new, model.frames(sel)))
                check(new, pop[-1][1], where + ' slice')
        elif op == 3:
            idx = [int(k) for k in rng.integers(-len(traj), len(traj), size=rng.integers(1, 6))]
            new = traj[idx] if rng.random() < 0.5 else traj[np.array(idx)]
            pop.append((new, model.frames(idx)))
            check(new, pop[-1][1], where + ' list')
        elif op == 4:
            present = sorted(set(model.symbols))
            wanted = [str(s) for s in rng.choice(present, size=rng.integers(1, len(present) + 1), replace=False)]
            arg = wanted[0] if (len(wanted) == 1 and rng.random() < 0.5) else wanted
            if rng.random() < 0.3:
                arg = set(wanted)
            new = traj.filter(arg)
            pop.append((new, model.atoms(wanted)))
            check(new, pop[-1][1], where + ' filter')
        elif op == 5:
            n_parts = int(rng.integers(1, 6))
            equal = bool(rng.random() < 0.5)
            bounds = np.linspace(0, len(traj) - 1, n_parts + 1, dtype=int)
            windows = list(itertools.pairwise(bounds))
            if any(b - a <= 0 for a, b in windows):
                try:
                    traj.split(n_parts, equal_parts=equal)
                except Exception:
                    pass
                else:
                    raise AssertionError((where, 'empty split part did not raise'))
            else:
                parts = traj.split(n_parts, equal_parts=equal)
                assert len(parts) == n_parts, where
                size = min(b - a for a, b in windows)
                for part, (a, b) in zip(parts, windows):
                    if equal:
                        b = a + size
                    m = model.frames(list(range(a, b)))
                    check(part, m, where + ' split')
                    if rng.random() < 0.3:
                        pop.append((part, m))
        elif op == 6:
            # extend a derived copy with another derived copy of the same atoms
            a = list(range(*random_slice(rng, len(traj)).indices(len(traj)))) or [0]
            b = list(range(*random_slice(rng, len(traj)).indices(len(traj)))) or [0]
            left, right = traj[a], traj[b]
            for t in (left, right):
                if rng.random() < 0.5:
                    read_only_query(rng, t)
            ret = left.extend(right)
            assert ret is None
            m = Model(
                np.concatenate([model.pos[a], model.pos[b]]),
                model.symbols,
                model.matrix,
                model.time_step,
                model.metadata,
            )
            pop.append((left, m))
            check(left, m, where + ' extend')
            check(right, model.frames(b), where + ' extend-arg')
        elif op == 7:
            d = traj.displacements
            err = np.abs(d - model.displacements()).max()
            # a displacement of exactly +-0.5 may legitimately round either way
            amb = np.abs(np.abs(model.displacements()) - 0.5) < 1e-6
            assert err < TOL or amb.any(), (where, 'displacements', err)
        # after every step every live trajectory must still match its model
        for k, (t, m) in enumerate(pop):
            # checking is itself a query (it flips the storage mode), so only
            # do it for a random subset to keep the histories diverse
            if rng.random() < 0.3:
                check(t, m, where + f' pop[{k}]')
        if len(pop) > 8:
            del pop[int(rng.integers(len(pop)))]
    for k, (t, m) in enumerate(pop):
        check(t, m, f'final pop[{k}]')


def run_fuzz(seed=0, histories=60, n_steps=40):
    rng = np.random.default_rng(seed)
    for _ in range(histories):
        run_history(rng, n_steps=n_steps)


# --------------------------------------------------------------------------
# Change 4 specifics: get_lattice / filter / split now live in a mixin module
# and lattices are interned by value
# --------------------------------------------------------------------------
import inspect
import pickle

from pymatgen.core.trajectory import Trajectory as PymatgenTrajectory


def bits(a, b):
    a, b = np.asarray(a), np.asarray(b)
    return a.dtype == b.dtype and a.shape == b.shape and np.array_equal(a, b)


def original_filter(traj, species):
    if isinstance(species, str):
        species = [species]
    idx = [sp.symbol in species for sp in traj.species]
    return Trajectory(
        species=list(itertools.compress(traj.species, idx)),
        coords=traj.positions[:, idx],
        lattice=Lattice(traj.lattice),
        metadata=traj.metadata,
        time_step=traj.time_step,
    )


def original_split(traj, n_parts, equal_parts):
    interval = np.linspace(0, len(traj) - 1, n_parts + 1, dtype=int)
    subs = [traj[a:b] for a, b in itertools.pairwise(interval)]
    if equal_parts:
        minsize = len(traj)
        for a, b in itertools.pairwise(interval):
            minsize = min(minsize, b - a)
        subs = [t[0:minsize] for t in subs]
    return subs


def same_traj(a, b):
    assert type(a) is type(b) is Trajectory
    assert bits(a.coords, b.coords) and a.coords.strides == b.coords.strides
    assert bits(a.base_positions, b.base_positions) and bits(a.lattice, b.lattice)
    assert a.species == b.species and a.time_step == b.time_step and a.metadata == b.metadata
    assert a.coords_are_displacement == b.coords_are_displacement
    assert a.site_properties == b.site_properties and a.frame_properties == b.frame_properties
    assert a.constant_lattice == b.constant_lattice


def outcome(fn):
    try:
        return 'ok', fn()
    except Exception as exc:  # noqa: BLE001
        return 'raise', type(exc)


def specifics():
    import copy

    # public surface is where it was
    assert Trajectory.__module__ == 'gemdat.trajectory'
    assert issubclass(Trajectory, PymatgenTrajectory)
    assert str(inspect.signature(Trajectory.filter)) == "(self, species: 'str | Collection[str]') -> 'Trajectory'"
    assert str(inspect.signature(Trajectory.split)) == "(self, n_parts: 'int' = 10, equal_parts: 'bool' = False) -> 'list[Trajectory]'"
    assert str(inspect.signature(Trajectory.get_lattice)) == "(self, idx: 'int | None' = None) -> 'Lattice'"
    assert inspect.signature(Trajectory.split).parameters['n_parts'].default == 10
    assert inspect.signature(Trajectory.split).parameters['equal_parts'].default is False
    assert list(inspect.signature(Trajectory.get_lattice).parameters) == ['self', 'idx']
    assert inspect.signature(Trajectory.get_lattice).parameters['idx'].default is None

    rng = np.random.default_rng(4)
    for case in range(200):
        traj, model = random_world(rng)
        if case % 2:
            traj.to_displacements()

        # -- lattice: exactly what Lattice(traj.lattice) would be ------------
        if case % 5 == 0:
            traj.lattice = traj.lattice.copy()
            traj.lattice[1, 0] = -0.0
            model.matrix = traj.lattice.copy()
        lat = traj.get_lattice()
        ref = Lattice(traj.lattice)
        assert type(lat) is Lattice and lat == ref and lat.pbc == ref.pbc == (True, True, True)
        assert lat.matrix.tobytes() == ref.matrix.tobytes()
        assert not lat.matrix.flags.writeable and not np.shares_memory(lat.matrix, traj.lattice)
        assert bits(lat.metric_tensor, ref.metric_tensor) and lat.abc == ref.abc and lat.angles == ref.angles
        assert bits(lat.inv_matrix, ref.inv_matrix) and lat.volume == ref.volume
        assert traj.get_lattice(0) == ref and traj.get_lattice(idx=3) == ref
        # changing the cell of the trajectory is picked up (nothing is cached per object)
        saved = traj.lattice
        traj.lattice = saved * 2.0
        assert traj.get_lattice().matrix.tobytes() == Lattice(saved * 2.0).matrix.tobytes()
        traj.lattice = saved
        assert traj.get_lattice().matrix.tobytes() == ref.matrix.tobytes()
        # a caller that scribbles on a lattice it was given cannot poison later answers
        victim = traj.get_lattice()
        victim.pbc = (True, True, False)
        again = traj.get_lattice()
        assert again.pbc == (True, True, True) and again == ref
        victim.pbc = (True, True, True)

        # -- filter / split: bit-identical to the original formulation -------
        present = sorted({sp.symbol for sp in traj.species})
        wanted = [str(s) for s in rng.choice(present, size=rng.integers(1, len(present) + 1), replace=False)]
        for sel in (wanted, wanted[0], set(wanted), tuple(wanted), ['Xe'], [], {sp for sp in traj.species}):
            twin = copy.deepcopy(traj)
            same_traj(traj.filter(sel), original_filter(twin, sel))
            assert traj.coords_are_displacement is False
            same_traj(traj, twin)
            if case % 2:
                traj.to_displacements()
        for n_parts in (-2, -1, 0, 1, 2, 3, len(traj) - 1, len(traj) + 1):
            for equal in (False, True):
                twin = copy.deepcopy(traj)
                got = outcome(lambda: traj.split(n_parts, equal_parts=equal))
                exp = outcome(lambda: original_split(twin, n_parts, equal))
                assert got[0] == exp[0], (n_parts, equal, got, exp)
                if got[0] == 'raise':
                    assert got[1] is exp[1]
                    continue
                assert len(got[1]) == len(exp[1])
                for a, b in zip(got[1], exp[1]):
                    same_traj(a, b)
                    assert a.metadata is traj.metadata
        check(traj, model, 'after filter/split')
        parts = traj.split(2) if len(traj) > 4 else []
        for part in parts:
            assert part.get_lattice() == ref

        # -- persistence is unaffected ----------------------------------------
        clone = pickle.loads(pickle.dumps(traj))
        assert type(clone) is Trajectory and set(clone.__dict__) == set(traj.__dict__)
        same_traj(clone, traj)
        assert clone.get_lattice() == ref

    # a subclass that overrides get_lattice is honoured by filter (as before)
    class Odd(Trajectory):
        def get_lattice(self, idx=None):
            return Lattice(np.eye(3) * 7)

    odd = Odd(species=[Element('Li'), Element('O')], coords=rng.uniform(size=(3, 2, 3)), lattice=np.eye(3), time_step=1.0)
    child = odd.filter('Li')
    assert type(child) is Odd and bits(child.lattice, np.eye(3) * 7)
    # lattice input that Lattice() rejects is still rejected
    bad = Trajectory(species=[Element('Li')], coords=np.zeros((2, 1, 3)), lattice=np.eye(3), time_step=1.0)
    bad.lattice = np.zeros((2, 3, 3))
    assert outcome(bad.get_lattice) == outcome(lambda: Lattice(bad.lattice)) == ('raise', ValueError)


if __name__ == '__main__':
    run_fuzz(seed=44, histories=60)
    specifics()
    print('change 4: OK')
