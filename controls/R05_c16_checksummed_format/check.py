"""Implementation-agnostic checks of property C16 (trajectory caching).

Run as:  PYTHONPATH=<worktree>/src /venv/bin/python check.py
Exits 0 when every check passes.
"""

from __future__ import annotations

import io
import os
import pickle
import random
import shutil
import sys
import tempfile
from contextlib import redirect_stderr, redirect_stdout
from pathlib import Path

import numpy as np
from pymatgen.core import Lattice, Structure
from pymatgen.io.lammps.data import LammpsData

from gemdat import Trajectory

CHECKS = 0


def ok(cond, msg):
    global CHECKS
    CHECKS += 1
    if not cond:
        print('FAIL:', msg)
        sys.exit(1)


# --------------------------------------------------------------------------
# synthetic inputs
# --------------------------------------------------------------------------
def make_lammps(d: Path, nframes=6, seed=0):
    d.mkdir(parents=True, exist_ok=True)
    rng = np.random.default_rng(seed)
    lat = Lattice.from_parameters(5.0, 6.0, 7.0, 90, 90, 90)
    species = ['Li', 'Li', 'S', 'P']
    frac = rng.random((len(species), 3))
    s = Structure(lat, species, frac)
    LammpsData.from_structure(s, atom_style='atomic').write_file(str(d / 'data.txt'))
    with open(d / 'traj.xyz', 'w') as f:
        for i in range(nframes):
            fr = frac + 0.02 * rng.standard_normal(frac.shape) * i
            cart = lat.get_cartesian_coords(fr)
            f.write(f'{len(species)}\nframe {i}\n')
            for sp, c in zip(species, cart):
                f.write(f'{sp} {c[0]:.6f} {c[1]:.6f} {c[2]:.6f}\n')
    return d / 'traj.xyz', d / 'data.txt'


def make_vasprun(path: Path, nframes=4, seed=1):
    path.parent.mkdir(parents=True, exist_ok=True)
    rng = np.random.default_rng(seed)
    species = ['Li', 'Li', 'S']
    basis = np.diag([4.0, 5.0, 6.0])
    frac0 = rng.random((3, 3))

    def structure(fr, name=None):
        nm = f' name="{name}"' if name else ''
        rec = np.linalg.inv(basis).T
        out = [f'<structure{nm}>', '<crystal>', '<varray name="basis">']
        out += [f'<v> {r[0]:.8f} {r[1]:.8f} {r[2]:.8f} </v>' for r in basis]
        out += ['</varray>', f'<i name="volume"> {np.linalg.det(basis):.8f} </i>']
        out += ['<varray name="rec_basis">']
        out += [f'<v> {r[0]:.8f} {r[1]:.8f} {r[2]:.8f} </v>' for r in rec]
        out += ['</varray>', '</crystal>', '<varray name="positions">']
        out += [f'<v> {r[0]:.8f} {r[1]:.8f} {r[2]:.8f} </v>' for r in fr]
        out += ['</varray>', '</structure>']
        return '\n'.join(out)

    atoms = '\n'.join(
        f'<rc><c>{sp}</c><c>{1 if sp == "Li" else 2}</c></rc>' for sp in species
    )
    parts = [
        '<?xml version="1.0" encoding="ISO-8859-1"?>',
        '<modeling>',
        '<generator><i name="program" type="string">vasp </i>'
        '<i name="version" type="string">5.4.4 </i></generator>',
        '<incar><i type="int" name="IBRION"> 0</i><i name="POTIM"> 2.0</i>'
        '<i name="TEBEG"> 700.0</i><i type="int" name="NSW"> 4</i></incar>',
        '<kpoints><generation param="Gamma"><v type="int" name="divisions"> 1 1 1 </v>'
        '<v name="usershift"> 0 0 0 </v></generation>'
        '<varray name="kpointlist"><v> 0 0 0 </v></varray>'
        '<varray name="weights"><v> 1.0 </v></varray></kpoints>',
        '<parameters><i name="POTIM"> 2.0</i><i name="TEBEG"> 700.0</i>'
        '<i type="int" name="IBRION"> 0</i><i type="int" name="NSW"> 4</i>'
        '<i type="int" name="NELM"> 60</i></parameters>',
        '<atominfo><atoms> 3 </atoms><types> 2 </types><array name="atoms">'
        '<dimension dim="1">ion</dimension><field type="string">element</field>'
        f'<field type="int">atomtype</field><set>{atoms}</set></array>'
        '<array name="atomtypes"><dimension dim="1">type</dimension>'
        '<field type="int">atomspertype</field><field type="string">element</field>'
        '<field>mass</field><field>valence</field>'
        '<field type="string">pseudopotential</field>'
        '<set><rc><c>2</c><c>Li</c><c>7.01</c><c>1.0</c><c> PAW_PBE Li 17Jan2003 </c></rc>'
        '<rc><c>1</c><c>S </c><c>32.066</c><c>6.0</c><c> PAW_PBE S 06Sep2000 </c></rc>'
        '</set></array></atominfo>',
        structure(frac0, 'initialpos'),
    ]
    fr = frac0
    for i in range(nframes):
        fr = frac0 + 0.01 * i * rng.standard_normal(frac0.shape)
        e = -10.0 - i
        parts.append(
            '<calculation>'
            + structure(fr)
            + f'<energy><i name="e_fr_energy"> {e:.6f} </i><i name="e_wo_entrp"> {e:.6f} </i>'
            f'<i name="e_0_energy"> {e:.6f} </i></energy></calculation>'
        )
    parts += [structure(fr, 'finalpos'), '</modeling>']
    path.write_text('\n'.join(parts))
    return path


# --------------------------------------------------------------------------
# helpers
# --------------------------------------------------------------------------
def quiet(fn, *args, **kwargs):
    """Call fn, swallowing the library's diagnostics."""
    buf = io.StringIO()
    with redirect_stdout(buf), redirect_stderr(buf):
        return fn(*args, **kwargs)


def _same(a, b):
    if a is None or b is None:
        return a is None and b is None
    if isinstance(a, np.ndarray) or isinstance(b, np.ndarray):
        a, b = np.asarray(a), np.asarray(b)
        return a.shape == b.shape and a.dtype == b.dtype and bool(np.array_equal(a, b))
    if isinstance(a, dict) and isinstance(b, dict):
        return a.keys() == b.keys() and all(_same(a[k], b[k]) for k in a)
    if isinstance(a, (list, tuple)) and isinstance(b, (list, tuple)):
        return len(a) == len(b) and all(_same(x, y) for x, y in zip(a, b))
    return type(a) is type(b) and a == b


def traj_equal(a, b, verbose=True):
    if type(a) is not type(b) or not isinstance(a, Trajectory):
        return False
    for name in (
        'species',
        'coords',
        'lattice',
        'base_positions',
        'time_step',
        'metadata',
        'constant_lattice',
        'coords_are_displacement',
        'site_properties',
        'frame_properties',
        'charge',
        'spin_multiplicity',
    ):
        if not _same(getattr(a, name, None), getattr(b, name, None)):
            if verbose:
                print('   differs in', name)
            return False
    return len(a) == len(b)


def tree(d: Path):
    return {p for p in Path(d).rglob('*') if p.is_file()}


def prefixes(n):
    if n <= 6000:
        return list(range(n))
    ks = set(range(0, 200)) | set(range(n - 200, n)) | set(range(0, n, max(1, n // 1500)))
    return sorted(k for k in ks if 0 <= k < n)


GARBAGE = [
    b'',
    b'\x00',
    b'\x80',
    b'\x80\x04',
    b'\x80\x04\x95',
    b'not a cache file at all\n',
    b'{"json": true}',
    bytes(range(256)) * 8,
    np.random.default_rng(5).bytes(4096),
    b'\x1f\x8b\x08\x00' + b'\x00' * 40,
    b'PK\x03\x04' + b'\x00' * 40,
    b'\x93NUMPY\x01\x00' + b'\x00' * 40,
]


def exercise_loader(name, root: Path, make_sources, load, arg_sets):
    """Generic scenario.

    make_sources(dir) -> dict of loader kwargs pointing into dir
    load(srckw, **args) -> Trajectory
    arg_sets: list of dicts of extra arguments; first one is the main one.
    """
    # references: parse in pristine directories with a throw-away explicit cache
    refs = []
    for i, args in enumerate(arg_sets):
        d = root / f'{name}_ref{i}'
        src = make_sources(d)
        refs.append(quiet(load, src, cache=root / f'{name}_ref{i}.tmpcache', **args))
        ref_again = quiet(load, make_sources(root / f'{name}_refb{i}'),
                          cache=root / f'{name}_refb{i}.tmpcache', **args)
        ok(traj_equal(refs[-1], ref_again), f'{name}: parsing is deterministic ({args})')

    work = root / f'{name}_work'
    src = make_sources(work)
    sources = tree(work)

    # --- miss then hit, default cache -------------------------------------
    args, ref = arg_sets[0], refs[0]
    t = quiet(load, src, **args)
    ok(traj_equal(t, ref), f'{name}: first load (miss) equals reference')
    caches = tree(work) - sources
    ok(len(caches) >= 1, f'{name}: a default cache file was written ({caches})')
    main_caches = []
    for c in caches:
        try:
            loaded = Trajectory.from_cache(c)
        except Exception:
            continue
        ok(traj_equal(loaded, ref), f'{name}: cache {c.name} read back equals reference')
        main_caches.append(c)
    ok(len(main_caches) == 1, f'{name}: exactly one readable cache file: {main_caches}')
    cache = main_caches[0]
    ok(traj_equal(Trajectory.from_cache(str(cache)), ref), f'{name}: from_cache accepts str')
    t = quiet(load, src, **args)
    ok(traj_equal(t, ref), f'{name}: second load (hit) equals reference')
    ok(tree(work) - sources == caches, f'{name}: hit creates no further files')

    good = cache.read_bytes()
    ok(len(good) > 0, 'cache non-empty')

    def damaged_then_load(blob, what):
        cache.write_bytes(blob)
        t = quiet(load, src, **args)
        ok(traj_equal(t, ref), f'{name}: load with {what} equals reference')
        ok(cache.exists(), f'{name}: cache present after {what}')
        try:
            back = Trajectory.from_cache(cache)
        except Exception as e:  # noqa
            ok(False, f'{name}: cache left behind after {what} is unreadable: {e!r}')
        ok(traj_equal(back, ref), f'{name}: cache left behind after {what} is complete')
        ok(tree(work) - sources == caches, f'{name}: no stray files after {what}: '
           f'{sorted(p.name for p in tree(work) - sources - caches)}')

    # --- crash at every byte of the write ---------------------------------
    for k in prefixes(len(good)):
        damaged_then_load(good[:k], f'cache truncated to {k}/{len(good)} bytes')
    # --- garbage ----------------------------------------------------------
    for i, g in enumerate(GARBAGE):
        damaged_then_load(g, f'garbage #{i}')
    # trailing garbage after a short prefix, flipped tail
    damaged_then_load(good[: len(good) // 2] + b'\x00' * 100, 'half + zeros')
    # --- repeated fault / recover cycles ----------------------------------
    rnd = random.Random(7)
    for cycle in range(25):
        current = cache.read_bytes()
        kind = rnd.choice(['trunc', 'garbage', 'none', 'delete'])
        if kind == 'trunc':
            cache.write_bytes(current[: rnd.randrange(len(current))])
        elif kind == 'garbage':
            cache.write_bytes(rnd.choice(GARBAGE))
        elif kind == 'delete':
            cache.unlink()
        for _ in range(rnd.choice([1, 2])):
            t = quiet(load, src, **args)
            ok(traj_equal(t, ref), f'{name}: cycle {cycle} ({kind}) equals reference')
        ok(traj_equal(Trajectory.from_cache(cache), ref),
           f'{name}: cycle {cycle} ({kind}) leaves complete cache')

    # --- explicit cache path (str and Path), incl. damage ------------------
    exp = root / f'{name}_explicit' / 'my.cache'
    exp.parent.mkdir()
    for conv in (Path, str):
        if exp.exists():
            exp.unlink()
        before = tree(work)
        t = quiet(load, src, cache=conv(exp), **args)
        ok(traj_equal(t, ref), f'{name}: explicit cache miss equals reference')
        ok(exp.exists() and traj_equal(Trajectory.from_cache(exp), ref),
           f'{name}: explicit cache written and complete')
        ok(tree(work) == before, f'{name}: explicit cache leaves source dir alone')
        t = quiet(load, src, cache=conv(exp), **args)
        ok(traj_equal(t, ref), f'{name}: explicit cache hit equals reference')
        blob = exp.read_bytes()
        for k in (0, 1, 7, len(blob) // 3, len(blob) - 1):
            exp.write_bytes(blob[:k])
            t = quiet(load, src, cache=conv(exp), **args)
            ok(traj_equal(t, ref), f'{name}: explicit cache truncated {k} equals reference')
            ok(traj_equal(Trajectory.from_cache(exp), ref),
               f'{name}: explicit cache truncated {k} repaired')
        ok(tree(exp.parent) == {exp}, f'{name}: no stray files next to explicit cache')

    # --- different arguments use different default cache files -------------
    seen = {cache: 0}
    for i, (a, r) in enumerate(zip(arg_sets, refs)):
        if i == 0:
            continue
        before = tree(work)
        t = quiet(load, src, **a)
        ok(traj_equal(t, r), f'{name}: load with {a} equals its reference')
        new = tree(work) - before
        readable = []
        for c in new:
            try:
                if traj_equal(Trajectory.from_cache(c), r):
                    readable.append(c)
            except Exception:
                pass
        ok(len(readable) == 1, f'{name}: args {a} got their own new cache file ({new})')
        ok(readable[0] not in seen, f'{name}: args {a} do not share a cache file')
        seen[readable[0]] = i
    # all of them still answer correctly, in any order, and are undisturbed
    order = list(range(len(arg_sets))) * 2
    random.Random(3).shuffle(order)
    for i in order:
        t = quiet(load, src, **arg_sets[i])
        ok(traj_equal(t, refs[i]), f'{name}: reload with {arg_sets[i]} equals its reference')
    for c, i in seen.items():
        ok(traj_equal(Trajectory.from_cache(c), refs[i]), f'{name}: cache {c.name} intact')
    # damage one, others are untouched and it is repaired
    for c, i in seen.items():
        blob = c.read_bytes()
        c.write_bytes(blob[: len(blob) // 2])
        t = quiet(load, src, **arg_sets[i])
        ok(traj_equal(t, refs[i]), f'{name}: damaged cache for {arg_sets[i]} falls back')
        for c2, j in seen.items():
            ok(traj_equal(Trajectory.from_cache(c2), refs[j]),
               f'{name}: cache {c2.name} complete after repair of {c.name}')
    return cache, src, refs


def numpy_trajectories():
    rng = np.random.default_rng(11)
    out = []
    coords = rng.random((7, 5, 3))
    species = ['Li', 'Li', 'S', 'P', 'S']
    out.append(Trajectory(species=species, coords=coords.copy(),
                          lattice=np.diag([3.0, 4.0, 5.0]), time_step=1e-15,
                          metadata={'temperature': 123}))
    out.append(Trajectory(species=species, coords=coords.copy(),
                          lattice=np.stack([np.eye(3) * (3 + 0.1 * i) for i in range(7)]),
                          constant_lattice=False, time_step=2e-15,
                          metadata={'temperature': 5.5, 'arr': np.arange(12.0).reshape(3, 4),
                                    'nested': {'a': [1, 2, (3, 4)], 'b': None}}))
    t = Trajectory(species=species, coords=coords.copy(),
                   lattice=Lattice.from_parameters(3, 4, 5, 80, 95, 100).matrix,
                   time_step=3e-15,
                   site_properties={'tag': ['a', 'b', 'c', 'd', 'e']})
    t.to_displacements()
    out.append(t)
    out.append(Trajectory(species=['Li1+', 'O2-'], coords=rng.random((300, 2, 3)),
                          lattice=np.eye(3) * 9, time_step=1e-12))
    out.append(out[0][2:5])
    return out


def roundtrip_checks(root: Path):
    d = root / 'roundtrip'
    d.mkdir()
    trajs = numpy_trajectories()
    for i, t in enumerate(trajs):
        for conv in (str, Path):
            p = d / f't{i}.cache'
            t.to_cache(conv(p))
            ok(p.is_file(), 'to_cache wrote the file that was asked for')
            ok(tree(d) == {p}, f'to_cache leaves no other files: {tree(d)}')
            back = Trajectory.from_cache(conv(p))
            ok(traj_equal(back, t), f'round trip #{i}')
            ok(back is not t, 'round trip returns a fresh object')
            back.coords[0, 0, 0] += 1.0  # must be writable and independent
            ok(traj_equal(Trajectory.from_cache(p), t), f'round trip #{i} repeatable')
            p.unlink()
    # overwrite a long cache with a short one and vice versa
    p = d / 'over.cache'
    for i in (3, 0, 3, 1, 4, 2):
        trajs[i].to_cache(p)
        ok(traj_equal(Trajectory.from_cache(p), trajs[i]), f'overwrite with #{i}')
    ok(tree(d) == {p}, 'overwriting leaves no other files')
    # truncated / garbage files are rejected by from_cache itself
    blob = p.read_bytes()
    for k in prefixes(len(blob)):
        p.write_bytes(blob[:k])
        try:
            got = Trajectory.from_cache(p)
        except Exception:
            got = None
        ok(got is None, f'from_cache rejects file truncated to {k}/{len(blob)} bytes')
    for i, g in enumerate(GARBAGE):
        p.write_bytes(g)
        try:
            got = Trajectory.from_cache(p)
        except Exception:
            got = None
        ok(got is None, f'from_cache rejects garbage #{i}')
    try:
        Trajectory.from_cache(d / 'does-not-exist.cache')
        ok(False, 'from_cache on a missing file must raise')
    except Exception:
        ok(True, '')


def lammps_sources(d):
    x, dt = make_lammps(d)
    return {'coords_file': x, 'data_file': dt}


def lammps_load(src, **kw):
    kw.setdefault('temperature', 300)
    kw.setdefault('time_step', 2.0)
    return Trajectory.from_lammps(**src, **kw)


LAMMPS_ARGS = [
    {},
    {'temperature': 400},
    {'temperature': 300.0},
    {'time_step': 1.0},
    {'type_mapping': {'LI': 'Na', 'S': 'Se', 'P': 'As'}},
    {'atom_style': 'atomic', 'coords_format': 'XYZ'},
]


def vasp_sources(d):
    return {'xml_file': make_vasprun(Path(d) / 'vasprun.xml')}


def vasp_load(src, **kw):
    return Trajectory.from_vasprun(src['xml_file'], **kw)


VASP_ARGS = [
    {},
    {'constant_lattice': False},
    {'ionic_step_skip': 2},
    {'ionic_step_skip': 2, 'ionic_step_offset': 1},
    {'parse_potcar_file': False, 'exception_on_bad_xml': False},
]


def run_common(root: Path):
    roundtrip_checks(root)
    lam = exercise_loader('lammps', root, lammps_sources, lammps_load, LAMMPS_ARGS)
    vas = exercise_loader('vasprun', root, vasp_sources, vasp_load, VASP_ARGS)
    # string paths as sources
    d = root / 'strsrc'
    s = lammps_sources(d)
    ref = lam[2][0]
    for _ in range(2):
        t = quiet(lammps_load, {k: str(v) for k, v in s.items()})
        ok(traj_equal(t, ref), 'lammps: str source paths')
    return lam, vas


def specific(root, lam, vas):
    """Checks specific to change 1 (container format)."""
    cache, src, refs = lam
    ref = refs[0]
    good = cache.read_bytes()

    def load_ok(what):
        t = quiet(lammps_load, src)
        ok(traj_equal(t, ref), f'c1: load with {what} equals reference')
        ok(traj_equal(Trajectory.from_cache(cache), ref), f'c1: complete cache after {what}')

    # 1. legacy caches (bare pickle, any protocol) are still served
    for proto in range(2, pickle.HIGHEST_PROTOCOL + 1):
        cache.write_bytes(pickle.dumps(ref, protocol=proto))
        ok(traj_equal(Trajectory.from_cache(cache), ref), f'c1: legacy pickle proto {proto}')
        load_ok(f'legacy pickle proto {proto}')
        # ... and truncated legacy caches fall back
        blob = pickle.dumps(ref, protocol=proto)
        for k in prefixes(len(blob))[::7]:
            cache.write_bytes(blob[:k])
            load_ok(f'legacy pickle proto {proto} truncated to {k}')
    cache.write_bytes(good)

    # 2. single corrupted byte anywhere in the file: never a wrong answer
    for pos in range(len(good)):
        bad = bytearray(good)
        bad[pos] ^= 0x41
        cache.write_bytes(bytes(bad))
        load_ok(f'byte {pos} flipped')

    # 3. what a writer that really dies mid-way leaves behind: a zeroed
    #    header followed by a partial (or even complete) payload, or a
    #    partially written header.
    hdr = 36
    for k in list(range(hdr, len(good), 13)) + [len(good)]:
        cache.write_bytes(bytes(hdr) + good[hdr:k])
        load_ok(f'uncommitted header, payload {k - hdr} bytes')
    for k in range(hdr + 1):
        cache.write_bytes(good[:k] + bytes(hdr - k) + good[hdr:])
        if k < hdr:
            load_ok(f'header committed up to byte {k}')
    # 4. padding / concatenation
    cache.write_bytes(good + b'\x00')
    load_ok('one trailing byte')
    cache.write_bytes(good + good)
    load_ok('doubled file')
    cache.write_bytes(good)
    ok(traj_equal(Trajectory.from_cache(cache), ref), 'c1: pristine cache readable')
if __name__ == '__main__':
    root = Path(tempfile.mkdtemp(prefix='c16_check_'))
    try:
        lam, vas = run_common(root)
        specific(root, lam, vas)
    finally:
        shutil.rmtree(root, ignore_errors=True)
    print(f'OK ({CHECKS} checks)')
    sys.exit(0)
