"""Shared oracle harness for the C15 checks (copied verbatim into every check.py).

Keeps, for every live trajectory, an independent numpy model (wrapped
positions, species symbols, lattice matrix, time step, metadata) and replays
random histories of API calls, comparing after every step.
"""
import itertools
import warnings

import numpy as np
from pymatgen.core import Element, Lattice

from gemdat import Trajectory

warnings.filterwarnings('ignore')

TOL = 1e-9


def pdiff(a, b):
    d = np.asarray(a) - np.asarray(b)
    return np.abs(d - np.round(d))


class Model:
    def __init__(self, pos, symbols, matrix, time_step, metadata):
        self.pos = np.mod(pos, 1.0)
        self.symbols = list(symbols)
        self.matrix = np.array(matrix, dtype=float)
        self.time_step = time_step
        self.metadata = dict(metadata)

    def frames(self, sel):
        return Model(self.pos[sel], self.symbols, self.matrix, self.time_step, self.metadata)

    def atoms(self, wanted):
        mask = np.array([s in wanted for s in self.symbols], dtype=bool)
        return Model(
            self.pos[:, mask],
            [s for s in self.symbols if s in wanted],
            self.matrix,
            self.time_step,
            self.metadata,
        )

    def displacements(self):
        d = np.diff(self.pos, axis=0, prepend=self.pos[:1])
        return d - np.round(d)


def check(traj, model, where):
    pos = traj.positions
    assert pos.shape == model.pos.shape, (where, pos.shape, model.pos.shape)
    assert (pos >= 0).all() and (pos < 1).all(), (where, 'positions not in [0, 1)')
    err = pdiff(pos, model.pos).max() if pos.size else 0.0
    assert err < TOL, (where, 'positions differ', err)
    assert [sp.symbol for sp in traj.species] == model.symbols, (where, 'species')
    assert np.allclose(traj.get_lattice().matrix, model.matrix, atol=1e-12, rtol=0), (where, 'lattice')
    assert traj.time_step == model.time_step, (where, 'time_step')
    assert traj.metadata == model.metadata, (where, 'metadata')
    assert isinstance(traj, Trajectory), (where, type(traj))
    assert len(traj) == len(model.pos), (where, 'len')


def random_lattice(rng):
    kind = rng.integers(4)
    if kind == 0:
        return Lattice.cubic(float(rng.uniform(3, 12)))
    if kind == 1:
        return Lattice.from_parameters(
            *rng.uniform(3, 12, size=3), *rng.uniform(60, 120, size=3)
        )
    if kind == 2:
        return Lattice.hexagonal(float(rng.uniform(3, 8)), float(rng.uniform(3, 12)))
    return Lattice(np.eye(3) * rng.uniform(3, 10) + rng.uniform(-1, 1, size=(3, 3)))


def random_world(rng, n_frames=None, n_atoms=None):
    n_frames = n_frames or int(rng.integers(4, 40))
    n_atoms = n_atoms or int(rng.integers(2, 9))
    symbols = [str(rng.choice(['Li', 'S', 'P', 'O'])) for _ in range(n_atoms)]
    lattice = random_lattice(rng)
    start = rng.uniform(-1.5, 2.5, size=(1, n_atoms, 3))
    steps = rng.normal(0, 0.08, size=(n_frames, n_atoms, 3))
    steps[0] = 0
    coords = start + np.cumsum(steps, axis=0)
    if rng.random() < 0.3:
        # exercise the wrap edge: tiny negative numbers and exact integers
        coords[rng.integers(n_frames), rng.integers(n_atoms), rng.integers(3)] = -1e-17
        coords[rng.integers(n_frames), rng.integers(n_atoms), rng.integers(3)] = 1.0
    metadata = {'temperature': float(rng.integers(100, 900))} if rng.random() < 0.8 else {}
    time_step = float(rng.choice([1e-15, 2e-15]))
    traj = Trajectory(
        species=[Element(s) for s in symbols],
        coords=coords.copy(),
        lattice=lattice,
        time_step=time_step,
        metadata=dict(metadata),
    )
    model = Model(coords, symbols, lattice.matrix, time_step, metadata)
    return traj, model


def read_only_query(rng, traj):
    """Fire one random read-only query; the results are not interpreted here."""
    kind = int(rng.integers(12))
    if kind == 0:
        traj.positions
    elif kind == 1:
        traj.displacements
    elif kind == 2:
        traj.cumulative_displacements
    elif kind == 3:
        traj.distances_from_base_position()
    elif kind == 4:
        traj.mean_squared_displacement()
    elif kind == 5:
        traj.drift()
    elif kind == 6:
        traj.center_of_mass()
    elif kind == 7:
        traj.apply_drift_correction()
    elif kind == 8:
        traj.to_displacements()
    elif kind == 9:
        traj.to_positions()
    elif kind == 10:
        repr(traj)
        traj.get_lattice()
        traj.total_time
    elif kind == 11:
        traj.get_structure(int(rng.integers(len(traj))))


def random_slice(rng, n):
    def pick():
        return None if rng.random() < 0.25 else int(rng.integers(-n - 2, n + 3))

    step = None if rng.random() < 0.4 else int(rng.choice([-3, -2, -1, 1, 2, 3, 5]))
    return slice(pick(), pick(), step)


def run_history(rng, n_steps=40):
    """Random history over a small population of (trajectory, model) pairs."""
    pop = [random_world(rng)]
    for step in range(n_steps):
        i = int(rng.integers(len(pop)))
        traj, model = pop[i]
        op = int(rng.integers(8))
        where = f'step {step} op {op}'
        if op in (0, 1):
            read_only_query(rng, traj)
        elif op == 2:
            sl = random_slice(rng, len(traj))
            sel = list(range(*sl.indices(len(traj))))
            if not sel:
                try:
                    traj[sl]
                except Exception:
                    pass
                else:
                    raise AssertionError((where, 'empty slice did not raise'))
            else:
                new = traj[sl]
                pop.append((new, model.frames(sel)))
                check(new, pop[-1][1], where + ' slice')
        elif op == 3:
            idx = [int(k) for k in rng.integers(-len(traj), len(traj), size=rng.integers(1, 6))]
            new = traj[idx] if rng.random() < 0.5 else traj[np.array(idx)]
            pop.append((new, model.frames(idx)))
            check(new, pop[-1][1], where + ' list')
        elif op == 4:
            present = sorted(set(model.symbols))
            wanted = [str(s) for s in rng.choice(present, size=rng.integers(1, len(present) + 1), replace=False)]
            arg = wanted[0] if (len(wanted) == 1 and rng.random() < 0.5) else wanted
            if rng.random() < 0.3:
                arg = set(wanted)
            new = traj.filter(arg)
            pop.append((new, model.atoms(wanted)))
            check(new, pop[-1][1], where + ' filter')
        elif op == 5:
            n_parts = int(rng.integers(1, 6))
            equal = bool(rng.random() < 0.5)
            bounds = np.linspace(0, len(traj) - 1, n_parts + 1, dtype=int)
            windows = list(itertools.pairwise(bounds))
            if any(b - a <= 0 for a, b in windows):
                try:
                    traj.split(n_parts, equal_parts=equal)
                except Exception:
                    pass
                else:
                    raise AssertionError((where, 'empty split part did not raise'))
            else:
                parts = traj.split(n_parts, equal_parts=equal)
                assert len(parts) == n_parts, where
                size = min(b - a for a, b in windows)
                for part, (a, b) in zip(parts, windows):
                    if equal:
                        b = a + size
                    m = model.frames(list(range(a, b)))
                    check(part, m, where + ' split')
                    if rng.random() < 0.3:
                        pop.append((part, m))
        elif op == 6:
            # extend a derived copy with another derived copy of the same atoms
            a = list(range(*random_slice(rng, len(traj)).indices(len(traj)))) or [0]
            b = list(range(*random_slice(rng, len(traj)).indices(len(traj)))) or [0]
            left, right = traj[a], traj[b]
            for t in (left, right):
                if rng.random() < 0.5:
                    read_only_query(rng, t)
            ret = left.extend(right)
            assert ret is None
            m = Model(
                np.concatenate([model.pos[a], model.pos[b]]),
                model.symbols,
                model.matrix,
                model.time_step,
                model.metadata,
            )
            pop.append((left, m))
            check(left, m, where + ' extend')
            check(right, model.frames(b), where + ' extend-arg')
        elif op == 7:
            d = traj.displacements
            err = np.abs(d - model.displacements()).max()
            # a displacement of exactly +-0.5 may legitimately round either way
            amb = np.abs(np.abs(model.displacements()) - 0.5) < 1e-6
            assert err < TOL or amb.any(), (where, 'displacements', err)
        # after every step every live trajectory must still match its model
        for k, (t, m) in enumerate(pop):
            # checking is itself a query (it flips the storage mode), so only
            # do it for a random subset to keep the histories diverse
            if rng.random() < 0.3:
                check(t, m, where + f' pop[{k}]')
        if len(pop) > 8:
            del pop[int(rng.integers(len(pop)))]
    for k, (t, m) in enumerate(pop):
        check(t, m, f'final pop[{k}]')


def run_fuzz(seed=0, histories=60, n_steps=40):
    rng = np.random.default_rng(seed)
    for _ in range(histories):
        run_history(rng, n_steps=n_steps)


# --------------------------------------------------------------------------
# Change 1 specifics: native __getitem__ / split versus the pymatgen reference
# --------------------------------------------------------------------------
from pymatgen.core import Structure
from pymatgen.core.trajectory import Trajectory as PymatgenTrajectory


def same_traj(a, b, where):
    assert type(a) is type(b) is Trajectory, where
    assert a.coords.dtype == b.coords.dtype and np.array_equal(a.coords, b.coords), where
    assert np.array_equal(a.base_positions, b.base_positions), where
    assert a.coords_are_displacement is False and b.coords_are_displacement is False, where
    assert a.species == b.species, where
    assert a.time_step == b.time_step, where
    assert a.constant_lattice == b.constant_lattice, where
    assert (a.lattice is None) == (b.lattice is None), where
    if a.lattice is not None:
        assert np.array_equal(a.lattice, b.lattice), where
    assert a.site_properties == b.site_properties, where
    assert a.frame_properties == b.frame_properties, where
    assert a.charge == b.charge and a.spin_multiplicity == b.spin_multiplicity, where


def reference_split(traj, n_parts, equal_parts):
    """The original algorithm, spelled out with the pymatgen slicing."""
    interval = np.linspace(0, len(traj) - 1, n_parts + 1, dtype=int)
    subs = [PymatgenTrajectory.__getitem__(traj, slice(a, b)) for a, b in itertools.pairwise(interval)]
    if equal_parts:
        minsize = min([len(traj)] + [b - a for a, b in itertools.pairwise(interval)])
        subs = [PymatgenTrajectory.__getitem__(t, slice(0, minsize)) for t in subs]
    return subs


def outcome(fn):
    try:
        return 'ok', fn()
    except Exception as exc:  # noqa: BLE001
        return 'raise', type(exc)


def specifics():
    rng = np.random.default_rng(123)
    for case in range(150):
        traj, model = random_world(rng)
        n, n_atoms = traj.coords.shape[:2]
        if case % 3 == 1:
            traj.site_properties = [{'tag': [f'{f}-{k}' for k in range(n_atoms)]} for f in range(n)]
        elif case % 3 == 2:
            traj.site_properties = {'tag': list(range(n_atoms))}
        if case % 2:
            traj.frame_properties = [{'energy': float(f)} for f in range(n)]
        if rng.random() < 0.5:
            traj.to_displacements()
        meta = traj.metadata

        # -- slices, lists and arrays against pymatgen's own slicing --------
        for _ in range(12):
            kind = rng.integers(3)
            if kind == 0:
                key = random_slice(rng, n)
            else:
                key = [int(k) for k in rng.integers(-n - 1, n + 2, size=rng.integers(1, 5))]
                if kind == 2:
                    key = np.array(key)
            if rng.random() < 0.3:
                traj.to_displacements()
            got = outcome(lambda: traj[key])
            ref = outcome(lambda: PymatgenTrajectory.__getitem__(traj, key))
            assert got[0] == ref[0], (key, got, ref)
            if got[0] == 'raise':
                assert issubclass(got[1], (IndexError, TypeError)), (key, got)
                continue
            same_traj(got[1], ref[1], key)
            assert got[1].metadata is meta and got[1].metadata == model.metadata
            assert not np.shares_memory(got[1].coords, traj.coords)
            assert not traj.coords_are_displacement

        # -- integer frames --------------------------------------------------
        for k in [0, n - 1, -1, -n, int(rng.integers(n))]:
            s = traj[k]
            r = PymatgenTrajectory.__getitem__(traj, k)
            assert isinstance(s, Structure) and s == r
            assert np.array_equal(s.frac_coords, r.frac_coords)
            assert s.site_properties == r.site_properties and s.properties == r.properties
            assert s.metadata is meta
        for bad in [n, n + 3, -n - 1]:
            assert outcome(lambda: traj[bad]) == ('raise', IndexError)
        for bad in [1.5, 'a', (0, 1), None]:
            assert outcome(lambda: traj[bad]) == ('raise', TypeError)
        assert [s for s in traj] == [PymatgenTrajectory.__getitem__(traj, k) for k in range(n)]

        # -- split -----------------------------------------------------------
        for n_parts in [-2, -1, 0, 1, 2, 3, 7, n - 1, n, n + 2]:
            for equal in (False, True):
                if rng.random() < 0.3:
                    traj.to_displacements()
                got = outcome(lambda: traj.split(n_parts, equal_parts=equal))
                ref = outcome(lambda: reference_split(traj, n_parts, equal))
                assert got[0] == ref[0], (n_parts, equal, got, ref)
                if got[0] == 'raise':
                    continue
                assert len(got[1]) == len(ref[1]) == max(n_parts, 0)
                for a, b in zip(got[1], ref[1]):
                    same_traj(a, b, ('split', n_parts, equal))
                    assert a.metadata is meta
                    assert not np.shares_memory(a.coords, traj.coords)
        check(traj, model, 'source after slicing/splitting')

    # -- variable cell and molecule trajectories still slice as before --------
    coords = rng.uniform(0, 1, size=(6, 3, 3))
    npt = Trajectory(
        species=[Element('Li')] * 3,
        coords=coords,
        lattice=[np.eye(3) * (4 + 0.1 * k) for k in range(6)],
        constant_lattice=False,
        time_step=1e-15,
        metadata={'temperature': 1},
    )
    for key in [slice(1, 5, 2), [4, 0, 2], slice(None, None, -1)]:
        same_traj(npt[key], PymatgenTrajectory.__getitem__(npt, key), key)
    for a, b in zip(npt.split(2), reference_split(npt, 2, False)):
        same_traj(a, b, 'npt split')
    assert npt[3] == PymatgenTrajectory.__getitem__(npt, 3)
    mol = Trajectory(species=[Element('H')] * 3, coords=coords * 3, charge=0, spin_multiplicity=None)
    assert mol[2] == PymatgenTrajectory.__getitem__(mol, 2)
    m1, m2 = mol[1:4], PymatgenTrajectory.__getitem__(mol, slice(1, 4))
    assert np.array_equal(m1.coords, m2.coords) and m1.charge == m2.charge and m1.lattice is None


if __name__ == '__main__':
    run_fuzz(seed=11, histories=60)
    specifics()
    print('change 1: OK')
