"""check.py for change 2 (C20). Run: PYTHONPATH=<worktree>/src /venv/bin/python check.py"""
from __future__ import annotations

import copy
import gc
import pickle
import random
import sys
import threading
import weakref

import numpy as np
import pandas as pd
from pymatgen.core import Lattice, Species, Structure

from gemdat.trajectory import Trajectory

A = 8.0
SITE_FRAC = np.array([[0.1, 0.1, 0.1], [0.6, 0.1, 0.1], [0.1, 0.6, 0.1], [0.6, 0.6, 0.6]])


def make_sites():
    return Structure(Lattice.cubic(A), ['Li'] * len(SITE_FRAC), SITE_FRAC,
                     labels=['A', 'B', 'A', 'B'])


def make_trajectory(seed, n_steps=120, n_li=3):
    """Lattice gas: Li atoms sit on sites (with small noise) and hop now and then."""
    rng = np.random.default_rng(seed)
    n_sites = len(SITE_FRAC)
    pos = rng.permutation(n_sites)[:n_li]
    coords = np.zeros((n_steps, n_li + 1, 3))
    transit = np.zeros(n_li, dtype=int)
    target = pos.copy()
    for t in range(n_steps):
        for a in range(n_li):
            if transit[a] > 0:
                transit[a] -= 1
                mid = 0.5 * (SITE_FRAC[pos[a]] + SITE_FRAC[target[a]])
                coords[t, a] = mid
                if transit[a] == 0:
                    pos[a] = target[a]
                continue
            if rng.random() < 0.08:
                free = [s for s in range(n_sites) if s not in pos and s not in target]
                if free:
                    target[a] = rng.choice(free)
                    transit[a] = 2
                    coords[t, a] = 0.5 * (SITE_FRAC[pos[a]] + SITE_FRAC[target[a]])
                    continue
            coords[t, a] = SITE_FRAC[pos[a]] + rng.normal(0, 0.004, 3)
        coords[t, n_li] = [0.85, 0.85, 0.35] + rng.normal(0, 0.002, 3)
    return Trajectory(
        species=[Species('Li')] * n_li + [Species('S')],
        coords=coords % 1.0,
        lattice=Lattice.cubic(A).matrix,
        metadata={'temperature': 300.0},
        time_step=1e-15 * 2,
    )


def make_transitions(seed, **kw):
    traj = make_trajectory(seed, **kw)
    return traj.transitions_between_sites(sites=make_sites(), floating_specie='Li',
                                          site_radius=1.0)


def same(a, b):
    """Deep value equality for everything the cached methods return."""
    if isinstance(a, np.ndarray) or isinstance(b, np.ndarray):
        a, b = np.asarray(a), np.asarray(b)
        if a.shape != b.shape or a.dtype != b.dtype:
            return False
        if a.dtype.names:
            return a.tobytes() == b.tobytes()
        if a.dtype.kind in 'fc':
            # Trajectory position<->displacement switching drifts by ~1e-15 (not a cache effect)
            return bool(np.allclose(a, b, rtol=1e-9, atol=1e-12, equal_nan=True))
        return bool(np.array_equal(a, b))
    if isinstance(a, (pd.DataFrame, pd.Series)):
        return type(a) is type(b) and a.shape == b.shape and list(a.index) == list(b.index) \
            and list(a.columns) == list(b.columns) \
            and bool(np.allclose(a.to_numpy(dtype=float), b.to_numpy(dtype=float),
                                 rtol=1e-9, atol=0, equal_nan=True))
    if isinstance(a, (tuple, list)):
        return type(a) is type(b) and len(a) == len(b) and all(same(x, y) for x, y in zip(a, b))
    if isinstance(a, dict):
        return type(a) is type(b) and a.keys() == b.keys() and all(same(a[k], b[k]) for k in a)
    if type(a).__name__ == 'Collective':
        return (type(b).__name__ == 'Collective' and a.max_dist == b.max_dist
                and a.max_steps == b.max_steps and a.n_solo_jumps == b.n_solo_jumps
                and a.n_coll_jumps == b.n_coll_jumps and same(list(a.coll_jumps), list(b.coll_jumps)))
    if hasattr(a, 'edges') and hasattr(a, 'nodes'):
        return sorted(map(str, a.edges(data=True))) == sorted(map(str, b.edges(data=True)))
    if isinstance(a, float) and isinstance(b, float):
        return type(a) is type(b) and (a == b or (a != a and b != b)
                                       or abs(a - b) <= 1e-9 * max(abs(a), abs(b))) \
            and getattr(a, 'unit', None) == getattr(b, 'unit', None)
    return type(a) is type(b) and a == b


def uncached(obj, name, *args, **kwargs):
    meth = getattr(type(obj), name)
    assert hasattr(meth, '__wrapped__'), f'{name} lost __wrapped__'
    return meth.__wrapped__(obj, *args, **kwargs)


def outcome(fn):
    try:
        return ('ok', fn())
    except Exception as exc:  # noqa: BLE001
        return ('err', type(exc))


FAILURES: list[str] = []


def expect(cond, msg):
    if not cond:
        FAILURES.append(msg)
        print('FAIL:', msg)


def check_call(obj, name, *args, **kwargs):
    """Cached call (twice) must agree with the uncached recomputation."""
    want = outcome(lambda: uncached(obj, name, *args, **kwargs))
    for rep in range(2):
        got = outcome(lambda: getattr(obj, name)(*args, **kwargs))
        if want[0] == 'err':
            expect(got[0] == 'err', f'{name}{args}{kwargs}: uncached raises, cached returned')
        else:
            expect(got[0] == 'ok' and same(got[1], want[1]),
                   f'{type(obj).__name__}.{name}{args}{kwargs} rep{rep}: cached != uncached')
    return want


TRANSITION_CALLS = [('matrix', (), {}), ('states_next', (), {}), ('states_prev', (), {})]
JUMPS_CALLS = [
    ('matrix', (), {}), ('counter', (), {}), ('_counter', (), {}),
    ('collective', (), {}), ('collective', (1,), {}), ('collective', (1.0,), {}),
    ('collective', (), {'max_dist': 0}), ('collective', (), {'max_dist': False}),
    ('collective', (), {'max_dist': 4.5}), ('collective', (True,), {}),
    ('rates', (), {}), ('rates', (2,), {}), ('rates', (), {'n_parts': 3}),
    ('rates', (), {'n_parts': 0}),
    ('jump_diffusivity', (3,), {}), ('jump_diffusivity', (), {'dimensions': 1}),
    ('jump_diffusivity', (1.0,), {}), ('jump_diffusivity', (True,), {}),
    ('activation_energies', (), {'n_parts': 2}),
]
METRICS_CALLS = [
    ('speed', (), {}), ('particle_density', (), {}), ('mol_per_liter', (), {}),
    ('tracer_diffusivity', (), {}), ('tracer_diffusivity', (), {'dimensions': 1}),
    ('tracer_diffusivity', (), {'dimensions': 1.0}),
    ('tracer_diffusivity_center_of_mass', (), {'dimensions': 2}),
    ('haven_ratio', (), {'dimensions': 3}),
    ('tracer_conductivity', (), {'z_ion': 1}), ('tracer_conductivity', (), {'z_ion': 2, 'dimensions': 2}),
    ('tracer_conductivity', (), {'z_ion': 0}),
    ('attempt_frequency', (), {}), ('vibration_amplitude', (), {}), ('amplitudes', (), {}),
]
COLLECTIVE_CALLS = [('site_pair_count_matrix', (), {}), ('site_pair_count_matrix_labels', (), {}),
                    ('multiple_collective', (), {})]


def calls_for(obj):
    return {'Transitions': TRANSITION_CALLS, 'Jumps': JUMPS_CALLS,
            'TrajectoryMetrics': METRICS_CALLS, 'Collective': COLLECTIVE_CALLS}[type(obj).__name__]


def labels_sorted(obj, name, args, kwargs):
    # `site_pair_count_matrix_labels` builds a list from a set: order is hash-seed dependent
    # but stable inside one process; compare as-is.
    return check_call(obj, name, *args, **kwargs)


def build_objects(seed):
    tr = make_transitions(seed)
    jm = tr.jumps()
    mt = tr.diff_trajectory.metrics()
    return tr, jm, mt


def run_generic_checks(n_objects=6, rounds=400, seed=1234):
    rnd = random.Random(seed)
    # 1. transparency on a pool of live objects, random interleaving, random args
    pool = []
    for s in range(n_objects):
        pool.extend(build_objects(100 + s))
    for _ in range(rounds):
        obj = rnd.choice(pool)
        name, args, kwargs = rnd.choice(calls_for(obj))
        check_call(obj, name, *args, **kwargs)
    coll = pool[1].collective()
    for name, args, kwargs in COLLECTIVE_CALLS:
        check_call(coll, name, *args, **kwargs)

    # 2. more live objects than the cache size (128) for one method
    base = make_transitions(7)
    many = []
    for i in range(140):
        part = copy.copy(base)
        part.events = base.events.iloc[: (i % max(1, len(base.events))) + 1]
        many.append(part)
    for part in many:
        check_call(part, 'matrix')
    for part in many[::-1]:
        check_call(part, 'matrix')

    # 3. no leak to a new object, including address reuse after destruction
    seen_ids = set()
    reused = 0
    for i in range(300):
        tr = make_small_transitions(i)
        if id(tr) in seen_ids:
            reused += 1
        seen_ids.add(id(tr))
        check_call(tr, 'matrix')
        check_call(tr, 'states_next')
        jm = tr.jumps(conversion_method=simple_conversion)
        check_call(jm, '_counter')
        check_call(jm, 'matrix')
        del tr, jm
        if i % 7 == 0:
            gc.collect()
    print('address reuse observed:', reused)

    # 4. caching does not keep its object alive
    for factory in (lambda: build_objects(55)[0], lambda: build_objects(56)[1],
                    lambda: build_objects(57)[2]):
        obj = factory()
        for name, args, kwargs in calls_for(obj):
            outcome(lambda: getattr(obj, name)(*args, **kwargs))
        ref = weakref.ref(obj)
        del obj
        gc.collect()
        expect(ref() is None, 'cache keeps its object alive')

    # 5. clones (copy / deepcopy / pickle) never see the original's results after diverging
    tr, jm, mt = build_objects(77)
    for name, args, kwargs in TRANSITION_CALLS:
        getattr(tr, name)(*args, **kwargs)
    for cloner in (copy.copy, copy.deepcopy, lambda o: pickle.loads(pickle.dumps(o))):
        cl = cloner(tr)
        cl.states = cl.states.copy()
        cl.states[::2] = -1
        cl.events = cl.events.iloc[::2]
        for name, args, kwargs in TRANSITION_CALLS:
            check_call(cl, name, *args, **kwargs)
        for name, args, kwargs in TRANSITION_CALLS:
            check_call(tr, name, *args, **kwargs)
    jm.matrix(); jm.counter()
    jc = copy.copy(jm)
    jc.data = jm.data.iloc[::2]
    for name in ('matrix', 'counter', '_counter'):
        check_call(jc, name)
        check_call(jm, name)

    # 6. threads hammering a shared set of objects
    # (only methods that do not touch the Trajectory: its position/displacement mode
    # switching is not thread-safe, which has nothing to do with the cache)
    errors = []
    safe = {'Transitions': TRANSITION_CALLS, 'Collective': COLLECTIVE_CALLS,
            'Jumps': [c for c in JUMPS_CALLS if c[0] in ('matrix', 'counter', '_counter')]}
    tpool = [o for o in pool if type(o).__name__ in safe]
    tpool += [o.collective(max_dist=4.5) for o in pool if type(o).__name__ == 'Jumps']
    tpool += [make_small_transitions(1000 + i) for i in range(150)]

    def worker(k):
        r = random.Random(k)
        try:
            for _ in range(400):
                obj = r.choice(tpool)
                name, args, kwargs = r.choice(safe[type(obj).__name__])
                want = outcome(lambda: uncached(obj, name, *args, **kwargs))
                got = outcome(lambda: getattr(obj, name)(*args, **kwargs))
                if want[0] != got[0] or (want[0] == 'ok' and not same(want[1], got[1])):
                    errors.append((type(obj).__name__, name, args, kwargs))
        except Exception as exc:  # noqa: BLE001
            errors.append(repr(exc))

    threads = [threading.Thread(target=worker, args=(k,)) for k in range(6)]
    for t in threads:
        t.start()
    for t in threads:
        t.join()
    expect(not errors, f'thread mismatches: {errors[:3]}')


_FORK_POOL: list = []


def _fork_job(i):
    obj = _FORK_POOL[i]
    res = []
    for name, args, kwargs in TRANSITION_CALLS:
        res.append((name, outcome(lambda: getattr(obj, name)(*args, **kwargs))))
    fresh = make_small_transitions(5000 + i)
    res2 = [(name, outcome(lambda: getattr(fresh, name)(*a, **k))) for name, a, k in TRANSITION_CALLS]
    return i, obj, res, fresh, res2


def run_fork_checks():
    import multiprocessing as mp

    _FORK_POOL[:] = [make_small_transitions(3000 + i) for i in range(6)]
    for obj in _FORK_POOL[:3]:
        obj.matrix()  # warm in the parent, hit in the child
    with mp.get_context('fork').Pool(2) as workers:
        out = workers.map(_fork_job, range(len(_FORK_POOL)))
    for i, clone, res, fresh, res2 in out:
        for obj, results in ((_FORK_POOL[i], res), (fresh, res2)):
            for name, got in results:
                want = outcome(lambda: uncached(obj, name))
                expect(got[0] == want[0] and same(got[1], want[1]), f'fork: {name} differs')
        for name, args, kwargs in TRANSITION_CALLS:
            check_call(clone, name)
            check_call(fresh, name)


def make_small_transitions(i):
    """Cheap distinct Transitions objects (shared trajectory, different events/states)."""
    global _SMALL_BASE
    try:
        base = _SMALL_BASE
    except NameError:
        base = _SMALL_BASE = make_transitions(3)
    rng = np.random.default_rng(i)
    n_sites = base.n_sites
    n_ev = int(rng.integers(1, 12))
    events = pd.DataFrame({
        'atom index': rng.integers(0, base.n_floating, n_ev),
        'start site': rng.integers(-1, n_sites, n_ev),
        'destination site': rng.integers(-1, n_sites, n_ev),
        'start inner site': rng.integers(-1, n_sites, n_ev),
        'destination inner site': rng.integers(-1, n_sites, n_ev),
        'time': np.sort(rng.integers(0, base.n_states, n_ev)),
    })
    events.loc[0, ['start site', 'destination site', 'start inner site',
                   'destination inner site']] = [0, 1, 0, 1]
    states = rng.integers(-1, n_sites, base.states.shape)
    return type(base)(trajectory=base.trajectory, diff_trajectory=base.diff_trajectory,
                      sites=base.sites, events=events, states=states, inner_states=states.copy())


def simple_conversion(transitions, *, minimal_residence=0):
    ev = transitions.events
    ev = ev[(ev['start site'] >= 0) & (ev['destination site'] >= 0)
            & (ev['start site'] != ev['destination site'])]
    return pd.DataFrame({'atom index': ev['atom index'].to_numpy(),
                         'start site': ev['start site'].to_numpy(),
                         'destination site': ev['destination site'].to_numpy(),
                         'start time': ev['time'].to_numpy(),
                         'stop time': ev['time'].to_numpy() + 1})


def finish():
    if FAILURES:
        print(f'{len(FAILURES)} failure(s)')
        sys.exit(1)
    print('OK')
    sys.exit(0)


def specific_checks():
    from gemdat import caching

    # results are dropped when the object is modified (setattr / delattr / touch)
    tr = make_small_transitions(1)
    other = make_small_transitions(2)
    for name, args, kwargs in TRANSITION_CALLS:
        check_call(tr, name)
    tr.events = other.events
    check_call(tr, 'matrix')
    tr.states = other.states
    check_call(tr, 'states_next')
    check_call(tr, 'states_prev')
    tr.states[:5] = -1  # in place: must be announced
    tr.touch()
    check_call(tr, 'states_next')
    check_call(tr, 'states_prev')
    jm = make_transitions(8).jumps()
    check_call(jm, 'matrix'); check_call(jm, 'counter'); check_call(jm, '_counter')
    jm.data = jm.data.iloc[1:]
    check_call(jm, 'matrix'); check_call(jm, '_counter'); check_call(jm, 'counter')
    coll = jm.collective(4.5)
    check_call(coll, 'site_pair_count_matrix')
    check_call(coll, 'multiple_collective')
    coll.coll_jumps = coll.coll_jumps[:1]
    coll.collective = coll.collective[:1]
    check_call(coll, 'site_pair_count_matrix')
    check_call(coll, 'multiple_collective')

    # clones carry the same stamp as the original but are different objects
    tr = make_small_transitions(3)
    tr.matrix()
    for cloner in (copy.copy, copy.deepcopy, lambda o: pickle.loads(pickle.dumps(o))):
        cl = cloner(tr)
        expect(caching.epoch_of(cl) == caching.epoch_of(tr), 'clone stamp')
        cl.__dict__['events'] = make_small_transitions(4).events  # bypasses the hook
        check_call(cl, 'matrix')
        check_call(tr, 'matrix')

    # stamps are unique even when threads race
    stamps = []

    class Thing(caching.MutationTracked):
        pass

    def spin():
        t = Thing()
        for i in range(3000):
            t.x = i
            stamps.append(caching.epoch_of(t))

    threads = [threading.Thread(target=spin) for _ in range(4)]
    [t.start() for t in threads]
    [t.join() for t in threads]
    expect(len(set(stamps)) == len(stamps), 'duplicate stamps')

    # toy class: untracked objects, falsy arguments, errors
    calls = []

    class Toy:
        def __init__(self, tag):
            self.tag = tag

        @caching.weak_lru_cache(maxsize=8)
        def f(self, x=0, *, y=None):
            calls.append((self.tag, x, y))
            if x == 'boom':
                raise KeyError(x)
            return (self.tag, x, y)

    toys = [Toy(i) for i in range(20)]
    for _ in range(3):
        for t in toys:
            for x in (0, None, '', (), 1, 2.5):
                expect(t.f(x) == (t.tag, x, None), 'key mix-up')
                expect(t.f(x, y=x) == (t.tag, x, x), 'kw key mix-up')
                expect(t.f(y=x) == (t.tag, 0, x), 'kw-only key mix-up')
    expect(len(Toy.f.cache) <= 8, 'table overflowed')
    expect(outcome(lambda: toys[0].f([1])) == ('err', TypeError), 'unhashable argument')
    for _ in range(2):
        expect(outcome(lambda: toys[1].f('boom')) == ('err', KeyError), 'exception swallowed')
    expect(calls.count((1, 'boom', None)) == 2, 'exception was cached')
    for i in range(2000):
        t = Toy(('fresh', i))
        expect(t.f(1) == (('fresh', i), 1, None), 'leak across address reuse')
        del t
    caching.clear_all_caches()
    check_call(tr, 'matrix')


if __name__ == '__main__':
    import warnings

    warnings.simplefilter('ignore')
    run_generic_checks()
    run_fork_checks()
    specific_checks()
    finish()
