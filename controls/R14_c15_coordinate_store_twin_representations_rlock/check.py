"""Check for change 2: coordinate store with twin representations."""
import copy
import pickle
import sys
import threading
import warnings

import numpy as np
from pymatgen.core import Element, Lattice
from gemdat import Trajectory

warnings.filterwarnings('ignore')
rng = np.random.default_rng(1502)
TOL = 1e-9


def circ(a, b):
    d = np.abs(np.asarray(a) - np.asarray(b))
    return np.minimum(d, np.abs(1 - d)).max() if d.size else 0.0


def min_image_diff(p):
    d = p - np.roll(p, 1, axis=0)
    d[0] = 0
    return d - np.around(d)


def make(nf=9, n=5, mode='pos', lattice=None):
    lattice = lattice or Lattice.from_parameters(5.1, 6.2, 7.3, 80, 95, 112)
    start = rng.random((1, n, 3))
    steps = rng.normal(scale=0.05, size=(nf, n, 3))
    steps[0] = 0
    pos = start + np.cumsum(steps, axis=0)
    species = [Element('Li')] * (n - 2) + [Element('S')] * 2
    kw = dict(species=species, lattice=lattice, time_step=1e-15, metadata={'temperature': 300})
    if mode == 'pos':
        t = Trajectory(coords=np.mod(pos, 1), **kw)
    elif mode == 'raw':
        t = Trajectory(coords=pos.copy(), **kw)
    else:
        t = Trajectory(coords=steps.copy(), coords_are_displacement=True, base_positions=start[0].copy(), **kw)
    return t, pos, steps


# 1. arbitrary sequences of mode switches / queries do not change the data
for mode in ('pos', 'raw', 'disp'):
    for lattice in (Lattice.cubic(1.0), Lattice.hexagonal(3, 7), None):
        for trial in range(30):
            t, pos, steps = make(nf=int(rng.integers(1, 14)), mode=mode, lattice=lattice)
            p0 = t.positions.copy() if trial % 2 else None
            ref_p = np.mod(pos, 1)
            for _ in range(int(rng.integers(1, 25))):
                op = rng.integers(7)
                if op == 0:
                    p = t.positions
                    assert not t.coords_are_displacement and p is t.coords
                    assert circ(p, ref_p) < TOL and p.min() >= 0 and p.max() < 1
                elif op == 1:
                    d = t.displacements
                    assert t.coords_are_displacement and d is t.coords
                    assert np.abs(d - steps).max() < TOL
                elif op == 2:
                    assert np.abs(t.cumulative_displacements - (pos - pos[0])).max() < TOL
                elif op == 3:
                    t.distances_from_base_position()
                elif op == 4:
                    a, b = sorted(rng.integers(0, len(t) + 1, 2))
                    if b > a:
                        assert circ(t[a:b].positions, ref_p[a:b]) < TOL
                elif op == 5:
                    assert circ(t.filter('S').positions, ref_p[:, -2:]) < TOL
                elif op == 6:
                    t.to_positions() if rng.random() < 0.5 else t.to_displacements()
                assert circ(t.base_positions, pos[0]) < TOL
            assert circ(t.positions, ref_p) < TOL
            assert np.abs(t.displacements - steps).max() < TOL
            if p0 is not None:
                assert circ(t.positions, p0) < TOL

# 2. callers writing into arrays they were handed are treated as before
t, pos, steps = make(mode='pos')
p = t.positions
d = t.displacements
p_again = t.positions
p_again[3, 1, :] = [0.11, 0.22, 0.33]  # live array: the edit must be honoured
assert np.abs(t.displacements - min_image_diff(p_again)).max() < TOL
assert circ(t.positions[3, 1], [0.11, 0.22, 0.33]) < TOL

t, pos, steps = make(mode='pos')
p = t.positions
d = t.displacements
p[...] = 0.5  # `p` is not live any more: edits must not leak back in
assert circ(t.positions, np.mod(pos, 1)) < TOL

t, pos, steps = make(mode='pos')
d = t.displacements
p = t.positions
d[...] += 0.1  # `d` is not live any more
assert np.abs(t.displacements - steps).max() < TOL

t, pos, steps = make(mode='disp')
d = t.displacements
p = t.positions
d2 = t.displacements
d2[2] += 0.01  # live displacements: honoured
expect = np.mod(t.base_positions + np.cumsum(d2, axis=0), 1)
assert circ(t.positions, expect) < TOL

# 3. re-assigning the attributes
t, pos, steps = make(mode='pos')
t.displacements
t.positions
new_pos = np.mod(pos + 0.25, 1)
t.coords = new_pos
t.base_positions = new_pos[0]
assert circ(t.positions, new_pos) < TOL
assert np.abs(t.displacements - steps).max() < TOL
assert circ(t.positions, new_pos) < TOL
t.displacements
t.base_positions = np.mod(new_pos[0] + 0.5, 1)  # shifts everything by 0.5
assert circ(t.positions, np.mod(new_pos + 0.5, 1)) < TOL
t.base_positions[...] = new_pos[0]  # in-place edit of the base
t.displacements
assert circ(t.positions, new_pos) < TOL
t.coords = steps.copy()
t.coords_are_displacement = True
assert circ(t.positions, new_pos) < TOL

# 4. pickle / copy keep the flat, historical attribute layout
for mode in ('pos', 'disp'):
    t, pos, steps = make(mode=mode)
    t.positions, t.displacements
    state = t.__getstate__()
    for key in ('coords', 'coords_are_displacement', 'base_positions', 'species', 'lattice', 'metadata', 'time_step'):
        assert key in state, key
    assert not any(k.startswith('_') for k in state), list(state)
    for clone in (pickle.loads(pickle.dumps(t)), copy.deepcopy(t), copy.copy(t)):
        assert type(clone) is Trajectory
        assert clone.coords_are_displacement == t.coords_are_displacement
        assert clone.metadata == t.metadata and clone.time_step == t.time_step
        assert circ(clone.positions, np.mod(pos, 1)) < TOL
        assert np.abs(clone.displacements - steps).max() < TOL
        assert circ(clone.positions, np.mod(pos, 1)) < TOL
    # a state dict as written by older versions
    old = Trajectory.__new__(Trajectory)
    restore = getattr(old, '__setstate__', None) or old.__dict__.update  # what pickle does
    restore({
        'charge': None, 'spin_multiplicity': None, 'lattice': t.lattice, 'constant_lattice': True,
        'base_positions': pos[0].copy(), 'coords_are_displacement': True, 'species': t.species,
        'coords': steps.copy(), 'time_step': 1e-15, 'site_properties': None, 'frame_properties': None,
        'metadata': {'temperature': 1},
    })
    assert circ(old.positions, np.mod(pos, 1)) < TOL and np.abs(old.displacements - steps).max() < TOL
    # MSONable round trip
    again = Trajectory.from_dict(t.as_dict())
    assert circ(again.positions, np.mod(pos, 1)) < TOL

# 5. extend / slice keep working on top of the store
a, pos_a, _ = make(nf=6, mode='pos')
b = a[2:5]
a.displacements
b.displacements
a.extend(b)
assert len(a) == 9
assert circ(a.positions, np.mod(np.concatenate([pos_a, pos_a[2:5]]), 1)) < TOL
a.displacements
assert circ(a.positions, np.mod(np.concatenate([pos_a, pos_a[2:5]]), 1)) < TOL
assert circ(b.positions, np.mod(pos_a[2:5], 1)) < TOL

# 6. concurrent readers
t, pos, steps = make(nf=40, n=30, mode='raw')
errors = []

def reader(k):
    try:
        for i in range(200):
            if (i + k) % 2:
                assert circ(t.positions, np.mod(pos, 1)) < TOL
            else:
                d = t.displacements
                # another thread may switch the mode right after; the array we got stays valid
                assert np.abs(d - steps).max() < TOL
    except Exception as e:  # noqa
        errors.append(e)

threads = [threading.Thread(target=reader, args=(k,)) for k in range(4)]
[th.start() for th in threads]
[th.join() for th in threads]
assert not errors, errors
assert circ(t.positions, np.mod(pos, 1)) < TOL

print('OK')
sys.exit(0)
