"""Implementation-agnostic C15 check: random histories against a numpy oracle."""
import copy
import pickle
import sys
import warnings
from itertools import pairwise

import numpy as np
from pymatgen.core import Element, Lattice, Species

from gemdat import Trajectory

warnings.filterwarnings('ignore')
TOL = 1e-9


def circ_close(a, b, tol=TOL):
    a = np.asarray(a, dtype=float)
    b = np.asarray(b, dtype=float)
    if a.shape != b.shape:
        return False
    d = np.abs(a - b)
    d = np.minimum(d, 1 - d)
    return bool(np.all(np.abs(d) <= tol))


class Model:
    """Oracle: wrapped positions + the invariants that must travel along."""

    def __init__(self, P, species, lattice, time_step, metadata):
        self.P = np.mod(np.asarray(P, dtype=float), 1)
        self.species = list(species)
        self.lattice = np.array(lattice, dtype=float)
        self.time_step = time_step
        self.metadata = metadata

    def check(self, t, where):
        assert type(t) is Trajectory, (where, type(t))
        pos = t.positions
        assert pos.shape == self.P.shape, (where, pos.shape, self.P.shape)
        assert np.all(pos >= 0) and np.all(pos < 1), (where, 'positions outside [0, 1)')
        assert circ_close(pos, self.P), (where, 'positions differ')
        assert not t.coords_are_displacement, where
        assert list(t.species) == self.species, (where, 'species')
        assert np.allclose(t.get_lattice().matrix, self.lattice, rtol=0, atol=1e-12), (where, 'lattice')
        assert np.allclose(np.asarray(t.lattice), self.lattice, rtol=0, atol=1e-12), (where, 'lattice attr')
        assert t.time_step == self.time_step, (where, 'time_step')
        assert sorted(t.metadata) == sorted(self.metadata), (where, 'metadata keys')
        for k, v in self.metadata.items():
            assert np.array_equal(np.asarray(t.metadata[k]), np.asarray(v)), (where, 'metadata', k)
        assert len(t) == len(self.P), where

    def disp(self):
        d = np.diff(self.P, axis=0, prepend=self.P[:1])
        return d - np.round(d)


def make(rng):
    kind = int(rng.integers(0, 3))
    if kind == 0:
        lat = Lattice.cubic(float(rng.uniform(2, 10)))
    elif kind == 1:
        lat = Lattice.from_parameters(*rng.uniform(3, 9, 3), *rng.uniform(65, 115, 3))
    else:
        lat = Lattice(rng.normal(size=(3, 3)) * 2 + np.eye(3) * 7)
    M, N = int(rng.integers(2, 16)), int(rng.integers(1, 8))
    names = [['Li', 'S', 'Si', 'P'][i] for i in rng.integers(0, 4, N)]
    cls = Species if rng.integers(0, 2) else Element
    species = [cls(n) for n in names]
    coords = rng.uniform(-1, 2, (N, 3)) + np.cumsum(rng.normal(scale=0.12, size=(M, N, 3)), axis=0)
    if rng.integers(0, 2):
        coords[int(rng.integers(0, M)), int(rng.integers(0, N)), int(rng.integers(0, 3))] = rng.choice(
            [0.0, 1.0, -1e-17, 2.0, -1.0]
        )
    metadata = {'temperature': 300.0, 'series': rng.normal(size=M), 'per_atom': rng.normal(size=N)}
    t = Trajectory(species=species, coords=coords.copy(), lattice=lat, time_step=1e-15, metadata=metadata)
    return t, Model(coords, species, lat.matrix, 1e-15, metadata)


def read_only_queries(rng, t, m, where):
    q = int(rng.integers(0, 12))
    if q == 0:
        d = t.displacements
        assert np.allclose(d, m.disp(), rtol=0, atol=TOL), (where, 'displacements')
        assert t.coords_are_displacement
    elif q == 1:
        t.to_displacements()
    elif q == 2:
        t.to_positions()
    elif q == 3:
        dist = t.distances_from_base_position()
        cart = np.cumsum(m.disp(), axis=0) @ m.lattice
        assert np.allclose(dist, np.linalg.norm(cart, axis=2).T, rtol=1e-9, atol=1e-9), (where, 'distances')
    elif q == 4:
        cd = t.cumulative_displacements
        assert np.allclose(cd, np.cumsum(m.disp(), axis=0), rtol=0, atol=TOL), (where, 'cumdisp')
    elif q == 5:
        dr = t.drift()
        assert np.allclose(dr, m.disp().mean(axis=1)[:, None, :], rtol=0, atol=TOL), (where, 'drift')
    elif q == 6:
        msd = t.mean_squared_displacement()
        assert msd.shape == (m.P.shape[1], m.P.shape[0])
    elif q == 7:
        mt = t.metrics()
        mt.speed()
        mt.tracer_diffusivity()
        mt.particle_density()
    elif q == 8:
        vol = t.to_volume(resolution=0.8)
        assert int(np.asarray(vol.data).sum()) == m.P.shape[0] * m.P.shape[1], (where, 'volume count')
    elif q == 9:
        i = int(rng.integers(0, len(m.P)))
        s = t[i]
        assert circ_close(s.frac_coords, m.P[i]), (where, 'structure')
    elif q == 10:
        t.center_of_mass()
        t.apply_drift_correction()
    elif q == 11:
        repr(t)
        t.total_time
        t.get_lattice()


def run_history(seed, n_ops=25):
    rng = np.random.default_rng(seed)
    pool = [make(rng)]
    for opno in range(n_ops):
        where = (seed, opno)
        t, m = pool[int(rng.integers(0, len(pool)))]
        for _ in range(int(rng.integers(0, 3))):
            read_only_queries(rng, t, m, where)
        op = int(rng.integers(0, 8))
        if op == 0:  # filter
            sel = sorted({s.symbol for s in m.species})
            sel = [sel[i] for i in rng.integers(0, len(sel), int(rng.integers(1, 3)))]
            mask = [s.symbol in sel for s in m.species]
            new = t.filter(sel if len(sel) > 1 else sel[0])
            nm = Model(m.P[:, mask], [s for s, k in zip(m.species, mask) if k], m.lattice, m.time_step, m.metadata)
            nm.check(new, where + ('filter',))
            pool.append((new, nm))
        elif op == 1:  # slice
            M = len(m.P)
            while True:
                sl = slice(*[None if rng.integers(0, 3) == 0 else int(rng.integers(-M - 2, M + 3)) for _ in range(2)],
                           [None, 1, 2, 3, -1, -2][int(rng.integers(0, 6))])
                if len(range(*sl.indices(M))) > 0:
                    break
            new = t[sl]
            nm = Model(m.P[sl], m.species, m.lattice, m.time_step, m.metadata)
            nm.check(new, where + ('slice', sl))
            pool.append((new, nm))
        elif op == 2:  # index list
            M = len(m.P)
            idx = [int(i) for i in rng.integers(-M, M, int(rng.integers(1, 5)))]
            new = t[idx if rng.integers(0, 2) else np.array(idx)]
            nm = Model(m.P[idx], m.species, m.lattice, m.time_step, m.metadata)
            nm.check(new, where + ('list', idx))
            pool.append((new, nm))
        elif op == 3:  # split
            M = len(m.P)
            n_parts = int(rng.integers(1, max(2, M - 1)))
            eq = bool(rng.integers(0, 2))
            edges = np.linspace(0, M - 1, n_parts + 1, dtype=int)
            if any(b <= a for a, b in pairwise(edges)):
                continue
            parts = t.split(n_parts, equal_parts=eq)
            assert isinstance(parts, list) and len(parts) == n_parts
            size = min(b - a for a, b in pairwise(edges))
            for part, (a, b) in zip(parts, pairwise(edges)):
                stop = a + size if eq else b
                nm = Model(m.P[a:stop], m.species, m.lattice, m.time_step, m.metadata)
                nm.check(part, where + ('split', n_parts, eq))
            pool.append((parts[0], Model(m.P[edges[0]:(edges[0] + size if eq else edges[1])], m.species, m.lattice, m.time_step, m.metadata)))
        elif op == 4:  # extend
            how = int(rng.integers(0, 3))
            if how == 0:
                other, om = t, m
            elif how == 1:
                other, om = copy.deepcopy(t), Model(m.P, m.species, m.lattice, m.time_step, m.metadata)
            else:
                other = t[::-1]
                om = Model(m.P[::-1], m.species, m.lattice, m.time_step, m.metadata)
            if rng.integers(0, 2):
                other.to_displacements()
            P_other = om.P.copy()
            t.extend(other)
            m.P = np.concatenate([m.P, P_other])
            m.check(t, where + ('extend', how))
            if other is not t:
                om.check(other, where + ('extend-other',))
        elif op == 5:  # pickle / deepcopy
            new = pickle.loads(pickle.dumps(t)) if rng.integers(0, 2) else copy.deepcopy(t)
            nm = Model(m.P, m.species, m.lattice, m.time_step, m.metadata)
            nm.check(new, where + ('copy',))
            pool.append((new, nm))
        elif op == 6:
            pool.append(make(rng))
        # everything in the pool must still match its oracle
        for tt, mm in pool:
            if rng.integers(0, 3) == 0:
                mm.check(tt, where + ('pool',))
        if len(pool) > 6:
            pool.pop(int(rng.integers(0, len(pool))))
    for tt, mm in pool:
        mm.check(tt, (seed, 'final'))


def run_common(n=120):
    for seed in range(n):
        run_history(seed)
    print(f'common: {n} random histories OK')


# ---------------------------------------------------------------- change 3
def expect(exc_types, fn):
    try:
        fn()
    except Exception as exc:  # noqa
        for tp in exc_types:
            assert isinstance(exc, tp), (type(exc).__mro__, tp)
        back = pickle.loads(pickle.dumps(exc))  # must survive a process boundary
        assert type(back) is type(exc) and str(back) == str(exc)
        return exc
    raise AssertionError('no exception raised')


def specific():
    from gemdat import errors as E

    rng = np.random.default_rng(5)
    for trial in range(30):
        t, m = make(rng)
        M = len(m.P)
        if trial % 2:
            t.to_displacements()
        # failing selections: right family of exception, trajectory unharmed
        expect([IndexError, E.FrameIndexError, E.GemdatError], lambda: t[M])
        expect([IndexError, E.FrameIndexError], lambda: t[-M - 1])
        expect([IndexError, E.FrameIndexError], lambda: t[[0, M]])
        expect([IndexError, E.FrameIndexError], lambda: t[[0, M + 3]])
        expect([IndexError, E.FrameIndexError], lambda: t[[-M - 1]])
        expect([IndexError, E.FrameIndexError], lambda: t[np.array([M + 1])])
        expect([IndexError, E.EmptySelectionError], lambda: t[[]])
        expect([IndexError, E.EmptySelectionError], lambda: t[M:])
        expect([IndexError, E.EmptySelectionError], lambda: t[3:1])
        expect([IndexError, E.EmptySelectionError], lambda: t[0:M:-1])
        expect([IndexError], lambda: t[[0.5]])
        expect([TypeError, E.FrameSelectionTypeError], lambda: t['a'])
        expect([TypeError, E.FrameSelectionTypeError], lambda: t[1.0])
        expect([TypeError, E.FrameSelectionTypeError], lambda: t[None])
        expect([TypeError, E.FrameSelectionTypeError], lambda: t[(0, 1)])
        expect([TypeError, E.FrameSelectionTypeError], lambda: t[np.int64(0)])
        expect([TypeError, E.FrameSelectionTypeError], lambda: t[0.5:2])
        expect([TypeError], lambda: t[['a']])
        expect([ValueError, E.FrameSelectionValueError], lambda: t[::0])
        expect([IndexError, E.EmptySelectionError], lambda: t.split(M + 2))
        expect([TypeError, E.FrameSelectionTypeError], lambda: t.split(2.0))
        expect([ValueError, E.SplitError], lambda: t.split(-2))
        assert t.split(0) == [] and t.split(-1) == []
        expect([TypeError, E.SpeciesSelectionError], lambda: t.filter(None))
        m.check(t, ('after failures', trial))

        # valid corner selections
        Model(m.P[[-1, 0, -M]], m.species, m.lattice, m.time_step, m.metadata).check(t[[-1, 0, -M]], 'neg list')
        Model(m.P[-3:], m.species, m.lattice, m.time_step, m.metadata).check(t[-3:], 'tail')
        Model(m.P[::-1], m.species, m.lattice, m.time_step, m.metadata).check(t[::-1], 'reversed')
        s = t[-1]
        assert circ_close(s.frac_coords, m.P[-1]) and s.metadata is t.metadata
        assert t.filter('Xe').positions.shape == (M, 0, 3)

        # failing extensions leave both sides untouched
        other, om = make(rng)
        if list(other.species) != list(t.species):
            exc = expect([ValueError, E.IncompatibleTrajectoryError], lambda: t.extend(other))
            assert 'species differ' in str(exc)
        o2 = copy.deepcopy(t)
        o2.time_step = 3e-15
        expect([ValueError, E.IncompatibleTrajectoryError], lambda: t.extend(o2))
        o3 = copy.deepcopy(t)
        o3.site_properties = 'bogus'
        expect([ValueError, E.IncompatibleTrajectoryError], lambda: t.extend(o3))
        m.check(t, ('after failed extend', trial))
        om.check(other, ('other after failed extend', trial))

    # string species: both the historical AssertionError and TypeError handlers work
    ts = Trajectory(species=['Li', 'S'], coords=np.zeros((2, 2, 3)), lattice=np.eye(3), time_step=1)
    expect([AssertionError, TypeError, E.SpeciesTypeError], lambda: ts.filter('Li'))
    # displacements without base positions
    td = Trajectory(species=['Li'], coords=np.zeros((3, 1, 3)), lattice=np.eye(3), time_step=1,
                    coords_are_displacement=True)
    expect([TypeError, E.MissingBasePositionsError], lambda: td.positions)
    expect([TypeError, E.MissingBasePositionsError], lambda: td[0])
    assert td.coords_are_displacement and np.array_equal(td.coords, np.zeros((3, 1, 3)))

    # split plan == np.linspace boundaries, single slicing == slicing twice
    t, m = make(rng)
    while len(m.P) < 9:
        t, m = make(rng)
    for n_parts in range(1, len(m.P) - 1):
        edges = np.linspace(0, len(m.P) - 1, n_parts + 1, dtype=int)
        if any(b <= a for a, b in pairwise(edges)):
            continue
        for eq in (False, True):
            parts = t.split(n_parts, equal_parts=eq)
            size = min(b - a for a, b in pairwise(edges))
            for part, (a, b) in zip(parts, pairwise(edges)):
                want = m.P[a:(a + size if eq else b)]
                assert np.array_equal(part.positions, t.positions[a:(a + size if eq else b)])
                Model(want, m.species, m.lattice, m.time_step, m.metadata).check(part, ('split', n_parts, eq))
    print('specific: OK')


if __name__ == '__main__':
    run_common(120)
    specific()
    print('ALL OK')
