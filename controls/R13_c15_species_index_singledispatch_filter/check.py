"""Check for change 1: species-index based Trajectory.filter()."""
import sys
import numpy as np
from pymatgen.core import Element, Lattice, Species
from gemdat import Trajectory

rng = np.random.default_rng(1501)
TOL = 1e-9


def circ(a, b):
    d = np.abs(np.asarray(a) - np.asarray(b))
    return np.minimum(d, 1 - d).max() if d.size else 0.0


def make(n_frames, symbols, lattice, displacement=False, oxi=False):
    n = len(symbols)
    start = rng.random((1, n, 3))
    steps = rng.normal(scale=0.04, size=(n_frames, n, 3))
    steps[0] = 0
    pos = start + np.cumsum(steps, axis=0)  # deliberately not wrapped
    species = [Species(s, 1) if oxi else Element(s) for s in symbols]
    meta = {'temperature': 321.0, 'tag': ['a', 1]}
    if displacement:
        return Trajectory(species=species, coords=steps, lattice=lattice, time_step=2e-15,
                          metadata=meta, coords_are_displacement=True, base_positions=start[0]), pos, meta
    return Trajectory(species=species, coords=pos.copy(), lattice=lattice, time_step=2e-15, metadata=meta), pos, meta


def reference_mask(symbols, selector):
    if isinstance(selector, str):
        selector = [selector]
    return np.array([s in selector for s in symbols], dtype=bool)


lattices = [Lattice.cubic(1.0), Lattice.from_parameters(5.1, 6.2, 7.3, 80, 95, 112), Lattice.hexagonal(4.0, 9.0)]
symbol_sets = [
    ['Li', 'Li', 'S', 'P', 'Li', 'S', 'Li'],
    ['Na'] * 5,
    ['O', 'Li', 'O', 'Li', 'La', 'Zr', 'O', 'Li', 'Li'],
]
selectors = ['Li', 'L', 'S', ['Li', 'S'], ('P',), {'Li', 'O'}, frozenset(), [], {'Li': 1}, ['Zr', 'Zr', 'La'], 'Xx',
             ['Na', 'Li', 'S', 'P', 'O', 'La', 'Zr']]

n_checks = 0
for lattice in lattices:
    for symbols in symbol_sets:
        for displacement in (False, True):
            for oxi in (False, True):
                for selector in selectors:
                    for pre in ('none', 'positions', 'displacements', 'both'):
                        traj, pos, meta = make(7, symbols, lattice, displacement, oxi)
                        if pre in ('positions', 'both'):
                            traj.positions
                        if pre in ('displacements', 'both'):
                            traj.displacements
                        species_before = list(traj.species)
                        sub = traj.filter(selector)
                        mask = reference_mask(symbols, selector)
                        assert type(sub) is Trajectory
                        assert sub.positions.shape == (7, int(mask.sum()), 3), sub.positions.shape
                        assert circ(sub.positions, np.mod(pos[:, mask], 1)) < TOL
                        assert sub.positions.size == 0 or (sub.positions.min() >= 0 and sub.positions.max() < 1)
                        assert sub.species == [sp for sp, m in zip(species_before, mask) if m]
                        assert all(a is b for a, b in zip(sub.species, [sp for sp, m in zip(species_before, mask) if m]))
                        assert np.array_equal(sub.get_lattice().matrix, lattice.matrix)
                        assert sub.time_step == traj.time_step == 2e-15
                        assert sub.metadata == meta and sub.metadata is traj.metadata
                        assert sub.constant_lattice
                        # the source is unaffected
                        assert traj.species == species_before
                        assert circ(traj.positions, np.mod(pos, 1)) < TOL
                        # the result does not alias the source
                        if mask.any():
                            before = traj.positions.copy()
                            sub.positions[...] = 0.25
                            sub.coords[...] = 0.25
                            assert np.array_equal(traj.positions, before)
                        # filtering the result again and chaining with slicing
                        again = traj.filter(selector).filter(selector)
                        assert circ(again.positions, np.mod(pos[:, mask], 1)) < TOL
                        part = traj[1:6:2].filter(selector)
                        assert circ(part.positions, np.mod(pos[1:6:2][:, mask], 1)) < TOL
                        part = traj.filter(selector)[1:6:2]
                        assert circ(part.positions, np.mod(pos[1:6:2][:, mask], 1)) < TOL
                        # displacement of a filtered trajectory == filtered displacement
                        d_full = traj.displacements[:, mask].copy()
                        d_sub = traj.filter(selector).displacements
                        assert np.abs(d_full - d_sub).max(initial=0) < TOL
                        n_checks += 1

# one-shot iterator selectors keep the historical per-atom semantics
traj, pos, _ = make(4, ['Li', 'S', 'Li', 'S'], lattices[0])
sub = traj.filter(iter(['Li', 'S']))
legacy = [s in it for it in [iter(['Li', 'S'])] for s in ['Li', 'S', 'Li', 'S']]
assert len(sub.species) == sum(legacy)

# non Species/Element entries are still rejected with an AssertionError
com = traj.center_of_mass()
try:
    com.filter('X')
except AssertionError:
    pass
else:
    raise SystemExit('expected AssertionError')

# species lists that are edited after a first filter are honoured
traj, pos, _ = make(4, ['Li', 'S', 'Li', 'S'], lattices[1])
assert len(traj.filter('Li').species) == 2
traj.species[1] = Element('Li')
sub = traj.filter('Li')
assert len(sub.species) == 3 and circ(sub.positions, np.mod(pos[:, [0, 1, 2]], 1)) < TOL

print(f'OK ({n_checks} combinations)')
sys.exit(0)
