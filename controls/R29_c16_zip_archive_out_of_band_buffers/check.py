"""Self-contained check for property C16 (cache faithfulness / interrupted writes).

Run as:  PYTHONPATH=<worktree>/src /venv/bin/python check.py
Exits 0 when behaviour is as the property demands.
"""
from __future__ import annotations

import contextlib
import io
import os
import pickle
import sys
import tempfile
import warnings
from pathlib import Path

import numpy as np

warnings.filterwarnings('ignore')

from pymatgen.core import Lattice, Structure  # noqa: E402
from pymatgen.io.lammps.data import LammpsData  # noqa: E402

from gemdat import Trajectory  # noqa: E402

FAILS: list[str] = []


def check(cond, msg):
    if not cond:
        FAILS.append(msg)
        print('FAIL:', msg)


def same(a, b) -> bool:
    """Attribute-wise equality of two trajectories (public attributes only)."""
    if type(a) is not type(b):
        return False
    ca, cb = np.asarray(a.coords), np.asarray(b.coords)
    if ca.dtype != cb.dtype or ca.shape != cb.shape or not np.array_equal(ca, cb):
        return False
    if not np.array_equal(np.asarray(a.base_positions), np.asarray(b.base_positions)):
        return False
    if not np.array_equal(np.asarray(a.lattice), np.asarray(b.lattice)):
        return False
    return (
        list(a.species) == list(b.species)
        and a.time_step == b.time_step
        and a.metadata == b.metadata
        and a.constant_lattice == b.constant_lattice
        and a.coords_are_displacement == b.coords_are_displacement
        and a.site_properties == b.site_properties
        and a.charge == b.charge
        and len(a) == len(b)
    )


def quiet(func, *args, **kwargs):
    """Call func, swallowing anything it prints."""
    with contextlib.redirect_stdout(io.StringIO()), contextlib.redirect_stderr(io.StringIO()):
        return func(*args, **kwargs)


def make_numpy_trajectory(seed=0, frames=7, atoms=5) -> Trajectory:
    rng = np.random.default_rng(seed)
    coords = rng.random((frames, atoms, 3))
    species = ['Li', 'Li', 'S', 'P', 'Li'][:atoms]
    return Trajectory(
        species=species,
        coords=coords,
        lattice=np.array([[4.0, 0.1, 0], [0, 5.0, 0.2], [0.3, 0, 6.0]]),
        time_step=2e-15,
        constant_lattice=True,
        metadata={'temperature': 650, 'note': 'x' * 10, 'arr': [1, 2, 3]},
        site_properties={'tag': list(range(atoms))},
    )


def make_lammps_inputs(folder: Path, stem='run', frames=6, seed=1, atom_style='atomic'):
    """Write a LAMMPS data file and a multi-frame xyz file; return their paths."""
    rng = np.random.default_rng(seed)
    lattice = Lattice.from_parameters(6.0, 7.0, 8.0, 90, 90, 90)
    symbols = ['Li', 'Li', 'Li', 'S', 'S', 'P']
    frac = rng.random((len(symbols), 3))
    structure = Structure(lattice, symbols, frac)
    data_file = folder / f'{stem}.data.txt'
    LammpsData.from_structure(structure, atom_style=atom_style).write_file(str(data_file))
    coords_file = folder / f'{stem}.xyz'
    lines = []
    for i in range(frames):
        cart = lattice.get_cartesian_coords(np.mod(frac + 0.01 * i * rng.random(frac.shape), 1))
        lines.append(str(len(symbols)))
        lines.append(f'frame {i}')
        for sym, (x, y, z) in zip(symbols, cart):
            lines.append(f'{sym} {x:.8f} {y:.8f} {z:.8f}')
    coords_file.write_text('\n'.join(lines) + '\n')
    return coords_file, data_file


def load(coords_file, data_file, **kw):
    kw.setdefault('temperature', 700)
    kw.setdefault('time_step', 2.0)
    return quiet(Trajectory.from_lammps, coords_file=coords_file, data_file=data_file, **kw)


def listing(folder: Path) -> set[Path]:
    return {p for p in folder.rglob('*') if p.is_file()}


def prefix_lengths(n: int, dense: int = 48, stride: int = 37) -> list[int]:
    """Every length near both ends, a stride in the middle (never n itself)."""
    picks = set(range(0, min(dense, n))) | set(range(max(0, n - dense), n))
    picks |= set(range(0, n, stride))
    return sorted(picks)


def rnd(n: int) -> bytes:
    """Deterministic pseudo-random bytes."""
    return np.random.default_rng(12345).bytes(n)


def roundtrip_checks(tmp: Path):
    """to_cache / from_cache on trajectories built from numpy arrays."""
    for seed, kw in [(0, {}), (1, {'frames': 1}), (2, {'frames': 30, 'atoms': 3})]:
        traj = make_numpy_trajectory(seed, **kw)
        path = tmp / f'np_{seed}.cache'
        traj.to_cache(path)
        back = Trajectory.from_cache(path)
        check(same(traj, back), f'numpy round trip seed={seed}')
        check(back is not traj, 'round trip gives a new object')
        # str path as well as Path, and overwrite of an existing longer file
        path.write_bytes(path.read_bytes() + b'\0' * 5000)
        traj.to_cache(str(path))
        check(same(traj, Trajectory.from_cache(str(path))), 'overwrite longer file')
        # displacement mode survives
        traj.to_displacements()
        traj.to_cache(path)
        back = Trajectory.from_cache(path)
        check(same(traj, back) and back.coords_are_displacement, 'displacement mode')
        # loaded object is usable and writable
        back.to_positions()
        back.coords[0, 0, 0] = 0.5
        check(back.coords[0, 0, 0] == 0.5, 'coords writable after load')

    # variable lattice
    rng = np.random.default_rng(5)
    lat = np.tile(np.eye(3) * 5.0, (4, 1, 1)) + rng.random((4, 3, 3)) * 0.01
    traj = Trajectory(
        species=['Li', 'O'], coords=rng.random((4, 2, 3)), lattice=lat,
        constant_lattice=False, time_step=1e-15,
    )
    path = tmp / 'npt.cache'
    traj.to_cache(path)
    check(same(traj, Trajectory.from_cache(path)), 'variable-lattice round trip')

    # Fortran-ordered and float32 coordinates
    t2 = make_numpy_trajectory(9)
    t2.coords = np.asfortranarray(t2.coords)
    t2.to_cache(path)
    check(same(t2, Trajectory.from_cache(path)), 'fortran-order round trip')
    t3 = make_numpy_trajectory(10)
    t3.coords = t3.coords.astype(np.float32)
    t3.to_cache(path)
    check(same(t3, Trajectory.from_cache(path)), 'float32 round trip')

    # subclass keeps its type and extra attributes
    t4 = make_numpy_trajectory(11)
    t4.__class__ = SubTrajectory
    t4.extra = {'a': np.arange(4)}
    t4.to_cache(path)
    b4 = SubTrajectory.from_cache(path)
    check(type(b4) is SubTrajectory and same(t4, b4), 'subclass round trip')
    check(np.array_equal(b4.extra['a'], np.arange(4)), 'subclass extra attribute')


class SubTrajectory(Trajectory):
    pass


def loader_checks(tmp: Path):
    folder = tmp / 'lmp'
    folder.mkdir()
    coords_file, data_file = make_lammps_inputs(folder)

    # reference: parse with an explicit cache somewhere else (no cache present)
    ref = load(coords_file, data_file, cache=tmp / 'ref_explicit.cache')
    check(len(ref) == 6 and ref.metadata == {'temperature': 700}, 'reference parse')
    check(same(ref, Trajectory.from_cache(tmp / 'ref_explicit.cache')), 'explicit cache complete')

    before = listing(folder)
    first = load(coords_file, data_file)
    created = listing(folder) - before
    check(same(ref, first), 'first default-cache load equals parse')
    check(len(created) >= 1, 'a default cache file was written')
    hit = load(coords_file, data_file)
    check(same(ref, hit), 'cache hit equals parse')
    check(listing(folder) - before == created, 'cache hit creates no further files')

    # crash points: every file the first load created is truncated in turn
    for victim in sorted(created):
        good = victim.read_bytes()
        n = len(good)
        for k in prefix_lengths(n):
            victim.write_bytes(good[:k])
            got = load(coords_file, data_file)
            if not same(ref, got):
                check(False, f'truncated {victim.name} at {k}/{n}: wrong trajectory')
                break
            # a complete cache is left behind: the next load must not need the sources
            again = load(coords_file, data_file)
            if not same(ref, again):
                check(False, f'truncated {victim.name} at {k}/{n}: bad cache left behind')
                break
        # garbage / other unreadable content
        for junk in [b'', b'\0' * n, rnd(n), good[: n // 2] + rnd(n - n // 2),
                     b'not a cache at all', good[1:], b'PK\x03\x04' + rnd(64),
                     b'\x80\x04' + rnd(64)]:
            victim.write_bytes(junk)
            got = load(coords_file, data_file)
            check(same(ref, got), f'garbage in {victim.name} ({junk[:6]!r}...)')
            check(same(ref, load(coords_file, data_file)), 'cache healed after garbage')
        # repeated fault / recover cycles
        for cycle in range(4):
            cur = victim.read_bytes()
            victim.write_bytes(cur[: (len(cur) * (cycle + 1)) // 5])
            check(same(ref, load(coords_file, data_file)), f'cycle {cycle} fault')
            check(same(ref, load(coords_file, data_file)), f'cycle {cycle} recover')

    # healed cache no longer needs the sources: hide them and load again
    hidden = folder / 'hidden.xyz'
    coords_file.rename(hidden)
    try:
        got = load(coords_file, data_file)
        check(same(ref, got), 'complete cache serves load without sources')
    except Exception as exc:  # noqa: BLE001
        check(False, f'healed cache not used: {exc!r}')
    finally:
        hidden.rename(coords_file)

    # explicit cache argument: faults there too
    explicit = tmp / 'explicit.bin'
    a = load(coords_file, data_file, cache=explicit)
    check(explicit.exists() and same(ref, a), 'explicit cache written')
    good = explicit.read_bytes()
    for k in prefix_lengths(len(good), dense=8, stride=211):
        explicit.write_bytes(good[:k])
        check(same(ref, load(coords_file, data_file, cache=str(explicit))), f'explicit trunc {k}')
        check(same(ref, Trajectory.from_cache(explicit)), f'explicit healed {k}')

    # Trajectory.to_cache output is accepted by the loader as its cache
    other = make_numpy_trajectory(3)
    other.to_cache(explicit)
    got = load(coords_file, data_file, cache=explicit)
    check(same(other, got), 'loader returns what a valid cache holds')
    # and a plain pickle written by someone else is either used or healed
    explicit.write_bytes(pickle.dumps(ref))
    check(same(ref, load(coords_file, data_file, cache=explicit)), 'plain pickle cache')


def option_checks(tmp: Path):
    """Different parser options use different default cache files."""
    folder = tmp / 'opts'
    folder.mkdir()
    coords_file, data_file = make_lammps_inputs(folder, stem='a.b')
    coords2, data2 = make_lammps_inputs(folder, stem='a.c', seed=4)
    mapping = {'LI': 'Na', 'S': 'S', 'P': 'P'}
    variants = [
        dict(temperature=30), dict(temperature=300), dict(temperature=300, time_step=0.2),
        dict(temperature=300, time_step=20.0), dict(temperature=300, type_mapping=mapping),
        dict(temperature=300, type_mapping={}), dict(temperature=300.5),
    ]
    seen: dict[Path, int] = {}
    for i, kw in enumerate(variants):
        before = listing(folder)
        got = load(coords_file, data_file, **kw)
        new = listing(folder) - before
        check(len(new) >= 1, f'variant {i} wrote its own cache file(s)')
        for p in new:
            check(p not in seen, f'variant {i} shares a file with variant {seen.get(p)}')
            seen[p] = i
        expect = load(coords_file, data_file, cache=tmp / f'opt_ref_{i}.cache', **kw)
        check(same(expect, got), f'variant {i} parse equals reference')
        check(got.metadata['temperature'] == kw['temperature'], f'variant {i} temperature')
        check(same(expect, load(coords_file, data_file, **kw)), f'variant {i} cache hit')
    # all variants still answer correctly once every cache exists
    for i, kw in enumerate(variants):
        got = load(coords_file, data_file, **kw)
        check(got.metadata['temperature'] == kw['temperature'], f'variant {i} second pass')
        want = 1e-12 * kw.get('time_step', 2.0)
        check(abs(got.time_step - want) <= 1e-12 * want, f'variant {i} time step')
    # a second data set with a dotted stem in the same directory
    before = listing(folder)
    b = load(coords2, data2, temperature=300)
    new = listing(folder) - before
    check(new and not (set(new) & set(seen)), 'second data set has its own cache')
    check(not same(b, load(coords_file, data_file, temperature=300)), 'data sets differ')
    check(same(b, load(coords2, data2, temperature=300)), 'second data set cache hit')

    # NPT request is still refused when there is no cache to serve it
    try:
        load(coords_file, data_file, constant_lattice=False)
        check(False, 'constant_lattice=False should raise NotImplementedError')
    except NotImplementedError:
        pass


def main(extra=()):
    with tempfile.TemporaryDirectory() as d:
        tmp = Path(d)
        roundtrip_checks(tmp)
        loader_checks(tmp)
        option_checks(tmp)
        for fn in extra:
            fn(tmp)
    if FAILS:
        print(f'{len(FAILS)} check(s) failed')
        sys.exit(1)
    print('OK')
    sys.exit(0)


def archive_checks(tmp: Path):
    """Specific to the archive format of this change."""
    import zipfile

    traj = make_numpy_trajectory(21, frames=40)
    path = tmp / 'arch.cache'
    traj.to_cache(path)
    raw = path.read_bytes()
    check(raw[:8] == b'GEMDATZ1', 'preamble magic')
    check(int.from_bytes(raw[8:16], 'little') == len(raw), 'preamble carries the file size')
    with zipfile.ZipFile(path) as zf:
        names = zf.namelist()
        check(zf.testzip() is None, 'zip members pass CRC')
    check(names[:2] == ['manifest.json', 'object.pkl'] and len(names) >= 3, f'members {names}')
    back = Trajectory.from_cache(path)
    check(back.coords.flags.writeable, 'coords buffer is writable')
    check(same(traj, back), 'archive round trip')

    # every single prefix of this file is rejected by from_cache itself
    for k in range(len(raw)):
        path.write_bytes(raw[:k])
        try:
            Trajectory.from_cache(path)
        except Exception:  # noqa: BLE001
            continue
        check(False, f'prefix {k}/{len(raw)} was accepted by from_cache')
        break
    # a flipped byte in the coordinate buffer is noticed (CRC)
    for pos in (len(raw) // 2, len(raw) // 3, 20, len(raw) - 5):
        bad = bytearray(raw)
        bad[pos] ^= 0x55
        path.write_bytes(bytes(bad))
        try:
            got = Trajectory.from_cache(path)
            check(same(traj, got), f'flipped byte {pos} accepted with wrong content')
        except Exception:  # noqa: BLE001
            pass
    # unfinished write: correct length but size field still zero
    path.write_bytes(raw[:8] + bytes(8) + raw[16:])
    try:
        Trajectory.from_cache(path)
        check(False, 'unfinished archive accepted')
    except Exception:  # noqa: BLE001
        pass
    # bare pickle written by an older version is still understood
    path.write_bytes(pickle.dumps(traj))
    check(same(traj, Trajectory.from_cache(path)), 'legacy pickle cache readable')
    # re-saving a loaded trajectory (buffers backed by bytearray) works
    back.to_cache(path)
    check(same(back, Trajectory.from_cache(path)), 're-save of a loaded trajectory')


if __name__ == '__main__':
    main(extra=[archive_checks])
