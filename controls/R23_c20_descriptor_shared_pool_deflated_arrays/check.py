"""Common part of the C20 checks: synthetic lattice gas + property probes.

Run as: PYTHONPATH=<worktree>/src /venv/bin/python check.py
"""
import gc
import os
import random
import sys
import threading
import warnings
import weakref
from collections import Counter

os.environ.setdefault('OMP_NUM_THREADS', '1')
warnings.filterwarnings('ignore')

import networkx as nx
import numpy as np
import pandas as pd
from pymatgen.core import Lattice, Species, Structure

from gemdat.collective import Collective
from gemdat.jumps import Jumps
from gemdat.metrics import TrajectoryMetrics
from gemdat.trajectory import Trajectory
from gemdat.transitions import Transitions

SITE_FRAC = np.array([
    [0.1, 0.1, 0.1], [0.5, 0.1, 0.1], [0.9, 0.5, 0.1],
    [0.1, 0.5, 0.5], [0.5, 0.5, 0.5], [0.5, 0.9, 0.9],
])
A = 10.0


def make_world(seed, n_steps=240, n_li=3, hop_p=0.08):
    """Tiny lattice gas: Li atoms hop between 6 sites (site exclusion), one
    static O atom."""
    rng = np.random.default_rng(seed)
    lattice = Lattice.cubic(A)
    n_sites = len(SITE_FRAC)
    sites = Structure(lattice, ['Li'] * n_sites, SITE_FRAC,
                      labels=['A', 'A', 'B', 'B', 'A', 'B'])
    occ = list(rng.choice(n_sites, size=n_li, replace=False))
    coords = np.zeros((n_steps, n_li + 1, 3))
    transit = [None] * n_li
    for t in range(n_steps):
        for a in range(n_li):
            if transit[a] is not None:
                tgt, left = transit[a]
                mid = 0.5 * (SITE_FRAC[occ[a]] + SITE_FRAC[tgt])
                if left > 0:
                    coords[t, a] = mid + rng.normal(0, 0.005, 3)
                    transit[a] = (tgt, left - 1)
                    continue
                occ[a] = tgt
                transit[a] = None
            elif rng.random() < hop_p:
                busy = set(occ) | {tr[0] for tr in transit if tr is not None}
                free = [s for s in range(n_sites) if s not in busy]
                if free:
                    tgt = int(rng.choice(free))
                    d = SITE_FRAC[tgt] - SITE_FRAC[occ[a]]
                    if np.all(np.abs(d) < 0.5):
                        transit[a] = (tgt, int(rng.integers(1, 3)))
                        coords[t, a] = 0.5 * (SITE_FRAC[occ[a]] + SITE_FRAC[tgt])
                        continue
            coords[t, a] = SITE_FRAC[occ[a]] + rng.normal(0, 0.004, 3)
        coords[t, n_li] = np.array([0.3, 0.7, 0.3]) + rng.normal(0, 0.002, 3)
    traj = Trajectory(
        species=[Species('Li')] * n_li + [Species('O')],
        coords=coords, lattice=lattice.matrix, time_step=2e-15,
        metadata={'temperature': 600.0}, constant_lattice=True,
    )
    return traj, sites


def make_transitions(seed, **kw):
    traj, sites = make_world(seed, **kw)
    return traj.transitions_between_sites(sites=sites, floating_specie='Li', site_radius=1.0)


# --------------------------------------------------------------------------
# value comparison
# --------------------------------------------------------------------------

RTOL = 1e-9  # BLAS/einsum paths make even two *uncached* runs differ by an ulp


def _close_arrays(a, b):
    if a.dtype != b.dtype or a.shape != b.shape:
        return False
    if a.dtype.kind == 'f':
        return bool(np.allclose(a, b, rtol=RTOL, atol=0, equal_nan=True))
    return bool(np.array_equal(a, b))


def _close_attrs(x, y):
    if x.keys() != y.keys():
        return False
    return all(same(x[k], y[k]) for k in x)


def same(a, b):
    """Deep value equality of analysis results (floats: within RTOL)."""
    if isinstance(a, Collective) or isinstance(b, Collective):
        if not (isinstance(a, Collective) and isinstance(b, Collective)):
            return False
        return (
            a.n_solo_jumps == b.n_solo_jumps
            and a.n_coll_jumps == b.n_coll_jumps
            and a.coll_jumps == b.coll_jumps
            and a.max_steps == b.max_steps
            and a.max_dist == b.max_dist
            and len(a.collective) == len(b.collective)
            and all(x.equals(p) and y.equals(q)
                    for (x, y), (p, q) in zip(a.collective, b.collective))
        )
    if isinstance(a, nx.Graph) or isinstance(b, nx.Graph):
        if not (isinstance(a, nx.Graph) and isinstance(b, nx.Graph)):
            return False
        ea, eb = list(a.edges(data=True)), list(b.edges(data=True))
        return (type(a) is type(b)
                and list(a.nodes(data=True)) == list(b.nodes(data=True))
                and [e[:2] for e in ea] == [e[:2] for e in eb]
                and all(_close_attrs(x[2], y[2]) for x, y in zip(ea, eb)))
    if isinstance(a, pd.DataFrame) or isinstance(b, pd.DataFrame):
        return (isinstance(a, pd.DataFrame) and isinstance(b, pd.DataFrame)
                and list(a.columns) == list(b.columns)
                and list(a.index) == list(b.index)
                and list(a.dtypes) == list(b.dtypes)
                and all(_close_arrays(a[c].to_numpy(), b[c].to_numpy()) for c in a.columns))
    if isinstance(a, np.ndarray) or isinstance(b, np.ndarray):
        return (isinstance(a, np.ndarray) and isinstance(b, np.ndarray)
                and _close_arrays(a, b))
    if isinstance(a, (tuple, list)):
        return (type(a) is type(b) and len(a) == len(b)
                and all(same(x, y) for x, y in zip(a, b)))
    if isinstance(a, dict):
        return type(a) is type(b) and dict(a) == dict(b)
    if type(a) is not type(b):
        return False
    if hasattr(a, 'unit') and str(a.unit) != str(b.unit):
        return False
    if isinstance(a, (float, np.floating)):
        fa, fb = float(a), float(b)
        return (fa == fb or (fa != fa and fb != fb)
                or abs(fa - fb) <= RTOL * max(abs(fa), abs(fb)))
    return bool(a == b)


class Failure(AssertionError):
    pass


def require(cond, msg):
    if not cond:
        raise Failure(msg)


def outcome(fn, *args, **kwargs):
    try:
        return ('ok', fn(*args, **kwargs))
    except Exception as exc:  # noqa: BLE001
        return ('raise', type(exc))


def same_outcome(a, b):
    if a[0] != b[0]:
        return False
    if a[0] == 'raise':
        return True  # messages / exact types are not part of the property
    return same(a[1], b[1])


# --------------------------------------------------------------------------
# the queries: (class, method name, list of (args, kwargs))
# --------------------------------------------------------------------------

TRANSITIONS_Q = [
    ('matrix', [((), {})]),
    ('states_next', [((), {})]),
    ('states_prev', [((), {})]),
]
JUMPS_Q = [
    ('matrix', [((), {})]),
    ('_counter', [((), {})]),
    ('counter', [((), {})]),
    ('jump_diffusivity', [((3,), {}), ((2,), {}), ((1,), {}), ((), {'dimensions': 3})]),
    ('collective', [((), {}), ((), {'max_dist': 4.5}), ((6.0,), {}), ((), {'max_dist': 1})]),
    ('rates', [((), {'n_parts': 3}), ((2,), {}), ((), {'n_parts': 4})]),
    ('activation_energies', [((), {'n_parts': 3}), ((2,), {})]),
    ('to_graph', [((), {}), ((), {'max_e_act': 0.15}), ((), {'min_e_act': 0.12, 'max_e_act': 0.2})]),
]
METRICS_Q = [
    ('speed', [((), {})]),
    ('particle_density', [((), {})]),
    ('mol_per_liter', [((), {})]),
    ('tracer_diffusivity', [((), {}), ((), {'dimensions': 3}), ((), {'dimensions': 2}), ((), {'dimensions': 1})]),
    ('tracer_diffusivity_center_of_mass', [((), {}), ((), {'dimensions': 2})]),
    ('haven_ratio', [((), {}), ((), {'dimensions': 1})]),
    ('tracer_conductivity', [((), {'z_ion': 1}), ((), {'z_ion': 2, 'dimensions': 2}), ((), {'z_ion': 1, 'dimensions': 3})]),
    ('attempt_frequency', [((), {})]),
    ('vibration_amplitude', [((), {})]),
    ('amplitudes', [((), {})]),
]
COLLECTIVE_Q = [
    ('site_pair_count_matrix', [((), {})]),
    ('site_pair_count_matrix_labels', [((), {})]),
    ('multiple_collective', [((), {})]),
]


def queries_for(obj):
    if isinstance(obj, Transitions):
        return TRANSITIONS_Q
    if isinstance(obj, Jumps):
        return JUMPS_Q
    if isinstance(obj, TrajectoryMetrics):
        return METRICS_Q
    if isinstance(obj, Collective):
        return COLLECTIVE_Q
    raise TypeError(obj)


def uncached(obj, name):
    """The uncached implementation, via the documented `__wrapped__`."""
    raw = getattr(type(obj), name).__wrapped__
    return lambda *a, **k: raw(obj, *a, **k)


def check_query(obj, name, args, kwargs, where=''):
    """cached == uncached, twice (miss + hit)."""
    ref = outcome(uncached(obj, name), *args, **kwargs)
    for attempt in (1, 2):
        got = outcome(getattr(obj, name), *args, **kwargs)
        require(same_outcome(got, ref),
                f'{where}{type(obj).__name__}.{name}{args}{kwargs} call #{attempt}: '
                f'cached {got!r} != uncached {ref!r}')
    # the bound attribute also exposes the raw function
    require(getattr(obj, name).__wrapped__ is getattr(type(obj), name).__wrapped__,
            f'{name}: __wrapped__ differs between class and instance access')


def check_all_queries(obj, where=''):
    for name, calls in queries_for(obj):
        for args, kwargs in calls:
            check_query(obj, name, args, kwargs, where)


# --------------------------------------------------------------------------
# cheap, distinguishable objects for long histories
# --------------------------------------------------------------------------

class Factory:
    """Produces many distinct analysis objects from a few base worlds."""

    def __init__(self, seeds=(1, 2, 3)):
        self.bases = [make_transitions(s) for s in seeds]
        self.rng = random.Random(1234)

    def transitions(self):
        base = self.rng.choice(self.bases)
        n = len(base.events)
        keep = sorted(self.rng.sample(range(n), self.rng.randint(max(2, n // 2), n)))
        events = base.events.iloc[keep].reset_index(drop=True)
        states = base.states.copy()
        # knock a random atom off its site for a few frames
        t0 = self.rng.randrange(0, len(states) - 6)
        states[t0:t0 + self.rng.randint(1, 5), self.rng.randrange(states.shape[1])] = -1
        return Transitions(
            trajectory=base.trajectory, diff_trajectory=base.diff_trajectory,
            sites=base.sites, events=events, states=states,
            inner_states=base.inner_states,
        )

    def jumps(self):
        base = self.rng.choice(self.bases)
        return base.jumps(minimal_residence=self.rng.choice([0, 0, 1, 2, 3]))

    def metrics(self):
        base = self.rng.choice(self.bases)
        traj = base.trajectory
        lo = self.rng.randrange(0, 100)
        hi = self.rng.randrange(lo + 60, len(traj) + 1)
        return TrajectoryMetrics(traj[lo:hi].filter('Li'))

    def any(self):
        kind = self.rng.choice(['t', 't', 'j', 'm'])
        return {'t': self.transitions, 'j': self.jumps, 'm': self.metrics}[kind]()


CHEAP = {
    Transitions: [('matrix', (), {}), ('states_next', (), {}), ('states_prev', (), {})],
    Jumps: [('matrix', (), {}), ('counter', (), {}), ('_counter', (), {}),
            ('jump_diffusivity', (3,), {}), ('jump_diffusivity', (2,), {}),
            ('jump_diffusivity', (), {'dimensions': 3}),
            ('rates', (), {'n_parts': 2}), ('rates', (3,), {}),
            ('collective', (), {'max_dist': 4.5}), ('collective', (), {})],
    TrajectoryMetrics: [('speed', (), {}), ('amplitudes', (), {}),
                        ('tracer_diffusivity', (), {'dimensions': 3}),
                        ('tracer_diffusivity', (), {'dimensions': 2}),
                        ('tracer_diffusivity', (), {}),
                        ('tracer_conductivity', (), {'z_ion': 1}),
                        ('tracer_conductivity', (), {'z_ion': 2, 'dimensions': 1}),
                        ('haven_ratio', (), {}),
                        ('vibration_amplitude', (), {}), ('attempt_frequency', (), {}),
                        ('particle_density', (), {}), ('mol_per_liter', (), {})],
}


def random_history(factory, n_ops=1500, max_live=200, seed=0, label=''):
    """Random interleaving of create / query / drop / collect with more live
    objects than any per-method cache size (128)."""
    rng = random.Random(seed)
    live = []
    n_checked = 0
    for step in range(n_ops):
        r = rng.random()
        if r < 0.30 and len(live) < max_live or not live:
            live.append(factory.any())
        elif r < 0.80:
            obj = rng.choice(live)
            name, args, kwargs = rng.choice(CHEAP[type(obj)])
            check_query(obj, name, args, kwargs, where=f'{label}history step {step}: ')
            n_checked += 1
            del obj
        elif r < 0.95:
            victim = live.pop(rng.randrange(len(live)))
            wr = weakref.ref(victim)
            del victim
            if rng.random() < 0.5:
                gc.collect()
                require(wr() is None, f'{label}history step {step}: dropped object still alive')
        else:
            gc.collect()
    return n_checked


def check_address_reuse(factory, rounds=300):
    """Objects created at the address of a collected one must get their own
    results."""
    reused = 0
    for kind in ('transitions', 'jumps', 'metrics'):
        make = getattr(factory, kind)
        seen = {}
        for i in range(rounds):
            obj = make()
            addr = id(obj)
            if addr in seen:
                reused += 1
            seen[addr] = True
            for name, args, kwargs in CHEAP[type(obj)][:4]:
                check_query(obj, name, args, kwargs, where=f'address-reuse {kind} #{i}: ')
            del obj  # refcount drop -> memory is free for the next one
    require(reused > 0, 'address reuse never happened, probe is vacuous')
    return reused


def check_not_pinned(factory):
    """Caching must not keep the object alive."""
    for kind in ('transitions', 'jumps', 'metrics'):
        obj = getattr(factory, kind)()
        for name, args, kwargs in CHEAP[type(obj)]:
            getattr(obj, name)(*args, **kwargs)
            getattr(obj, name)(*args, **kwargs)
        wr = weakref.ref(obj)
        del obj
        gc.collect()
        require(wr() is None, f'{kind}: object pinned by its cache')
    # a Jumps with a memoised Collective (back-reference) must go as well
    jumps = factory.jumps()
    coll = jumps.collective(max_dist=4.5)
    check_all_queries(coll)
    wr = weakref.ref(jumps)
    del jumps
    gc.collect()
    require(wr() is None, 'Jumps pinned through memoised Collective')
    del coll


def _thread_calls(obj):
    # `Trajectory` switches its storage mode in place (slicing -> positions,
    # displacements -> displacements), which is a data race in the library
    # itself when two threads share a trajectory. `rates` slices, all the other
    # queries only read displacements, so leave `rates` out here.
    return [c for c in CHEAP[type(obj)] if c[0] != 'rates']


def check_threads(factory, n_threads=6, n_calls=150):
    """Concurrent callers on shared objects get the uncached values."""
    objs = [factory.transitions() for _ in range(4)] + [factory.jumps() for _ in range(3)] \
        + [factory.metrics() for _ in range(3)]
    expected = {}
    for i, obj in enumerate(objs):
        for name, args, kwargs in CHEAP[type(obj)]:
            expected[i, name, args, tuple(kwargs.items())] = outcome(uncached(obj, name), *args, **kwargs)
    errors = []
    barrier = threading.Barrier(n_threads)

    def work(tid):
        rng = random.Random(tid)
        try:
            barrier.wait()
            for _ in range(n_calls):
                i = rng.randrange(len(objs))
                obj = objs[i]
                name, args, kwargs = rng.choice(_thread_calls(obj))
                got = outcome(getattr(obj, name), *args, **kwargs)
                ref = expected[i, name, args, tuple(kwargs.items())]
                if not same_outcome(got, ref):
                    errors.append(f'thread {tid}: {type(obj).__name__}.{name}{args}{kwargs}')
                if rng.random() < 0.05:
                    tmp = factory_local[tid].transitions()
                    tmp.matrix()
                    del tmp
        except BaseException as exc:  # noqa: BLE001
            errors.append(f'thread {tid}: {exc!r}')

    factory_local = [Factory(seeds=(1,)) for _ in range(n_threads)]
    old = sys.getswitchinterval()
    sys.setswitchinterval(1e-5)
    try:
        threads = [threading.Thread(target=work, args=(t,)) for t in range(n_threads)]
        for t in threads:
            t.start()
        for t in threads:
            t.join(300)
            require(not t.is_alive(), 'thread did not finish (deadlock?)')
    finally:
        sys.setswitchinterval(old)
    require(not errors, 'concurrent callers: ' + '; '.join(errors[:5]))


def check_arguments(factory):
    """Arguments that collide as dictionary keys or are spelled differently."""
    j = factory.jumps()
    m = factory.metrics()
    for args, kwargs in [((3,), {}), ((3.0,), {}), ((True,), {}), ((1,), {}), ((1.0,), {}),
                         ((), {'dimensions': 3}), ((), {'dimensions': 1}), ((), {'dimensions': True}),
                         ((-1,), {}), ((-2,), {})]:
        check_query(j, 'jump_diffusivity', args, kwargs, where='args: ')
    for kwargs in [{'dimensions': 1}, {'dimensions': True}, {'dimensions': 1.0}, {'dimensions': 2},
                   {'dimensions': -1}, {'dimensions': -2}, {}]:
        check_query(m, 'tracer_diffusivity', (), kwargs, where='args: ')
    for kwargs in [{'z_ion': 1, 'dimensions': 3}, {'dimensions': 3, 'z_ion': 1}, {'z_ion': 1},
                   {'z_ion': 3, 'dimensions': 1}, {'z_ion': 1, 'dimensions': 3.0}]:
        check_query(m, 'tracer_conductivity', (), kwargs, where='args: ')
    for args, kwargs in [((), {}), ((1,), {}), ((1.0,), {}), ((), {'max_dist': 1}), ((), {'max_dist': True}),
                         ((), {'max_dist': 4.5}), ((4.5,), {})]:
        check_query(j, 'collective', args, kwargs, where='args: ')
    # errors are not memoised and do not poison later calls
    for args, kwargs in [((), {}), ((1, 2), {}), ((), {'nope': 1})]:
        check_query(j, 'jump_diffusivity', args, kwargs, where='bad args: ')
    check_query(j, 'rates', (), {'n_parts': 10 ** 6}, where='bad args: ')
    check_query(j, 'rates', (), {'n_parts': 2}, where='after error: ')
    # unhashable argument: a TypeError, as with functools.lru_cache
    got = outcome(j.jump_diffusivity, [3])
    require(got == ('raise', TypeError), f'unhashable argument: {got!r}')


def check_api_surface():
    """What callers (and the docs) can see of a memoised method."""
    import inspect
    for cls, qs in ((Transitions, TRANSITIONS_Q), (Jumps, JUMPS_Q),
                    (TrajectoryMetrics, METRICS_Q), (Collective, COLLECTIVE_Q)):
        for name, _ in qs:
            attr = getattr(cls, name)
            raw = attr.__wrapped__
            require(callable(attr) and inspect.isfunction(raw), f'{cls.__name__}.{name}: __wrapped__')
            require(attr.__name__ == name and attr.__doc__ == raw.__doc__, f'{cls.__name__}.{name}: metadata')
            require(str(inspect.signature(attr)) == str(inspect.signature(raw)),
                    f'{cls.__name__}.{name}: signature {inspect.signature(attr)}')


def run_common():
    factory = Factory()
    check_api_surface()
    # every memoised method, on full objects
    for base in factory.bases:
        check_all_queries(base)
        jumps = base.jumps()
        check_all_queries(jumps)
        check_all_queries(jumps.collective(max_dist=4.5))
        check_all_queries(base.trajectory.metrics())
        check_all_queries(base.diff_trajectory.metrics())
    check_arguments(factory)
    check_not_pinned(factory)
    reused = check_address_reuse(factory)
    n = random_history(factory, seed=7)
    check_threads(factory)
    n += random_history(factory, n_ops=600, seed=8, label='post-threads ')
    return f'address re-used {reused}x, {n} history queries'

# --------------------------------------------------------------------------
# probes specific to change 3 (pooled budget, descriptor objects, deflated arrays)
# --------------------------------------------------------------------------

def check_deflated_arrays():
    """Arrays of every shape / layout / integer type survive the pool
    bit-exactly."""
    from gemdat import caching

    rng = np.random.default_rng(5)

    class Holder:
        def __init__(self, make):
            self.make = make

        @caching.weak_lru_cache()
        def get(self, flip=False):
            fresh = self.make()  # a new array (with an odd memory layout) per computation
            return fresh[::-1] if flip else fresh

    makers = []
    for dtype in ('int8', 'uint8', 'int16', 'uint32', 'int64', '>i8', '>u2', 'bool', 'float64'):
        base = rng.integers(-1, 5, size=(40, 7, 3)).astype(dtype)
        makers += [
            lambda b=base: b.copy(), lambda b=base: np.asfortranarray(b), lambda b=base: b.copy().T,
            lambda b=base: b.copy()[::2, ::-1], lambda b=base: b.copy()[:, 3], lambda b=base: b.copy().ravel(),
            lambda b=base: b.copy()[:2, :1, :1], lambda b=base: b.copy()[:0],
            lambda b=base: np.fliplr(b[:, :, 0].T.copy()).T,
        ]
    arrays = [m() for m in makers]
    holders = [Holder(m) for m in makers]
    for _ in range(3):
        for h in holders:
            for flip in (False, True):
                got = h.get(flip)
                ref = Holder.get.__wrapped__(h, flip)
                require(type(got) is np.ndarray and got.dtype == ref.dtype and got.shape == ref.shape
                        and np.array_equal(got, ref) and got.tobytes() == ref.tobytes(),
                        f'array round trip {ref.dtype} {ref.shape}')
                require(got.flags.writeable, 'result must be writable like a fresh one')
                if got.dtype.kind in 'biu' and got.nbytes >= caching.PACK_MIN_BYTES:
                    got[...] = 1  # deflated in the pool: every caller has a private array
            require(h.get() is not None, 'still callable')
    for h, a in zip(holders, arrays):
        require(np.array_equal(h.get(), a), 'pooled value changed')
    n_deflated = sum(type(v) is caching._Deflated for v in caching._POOL._entries.values())
    require(n_deflated >= len(holders), f'only {n_deflated} deflated entries, probe is vacuous')


def check_pool(factory):
    from gemdat import caching

    capacity = caching._POOL.capacity
    require(capacity is not None and capacity >= 128, f'capacity {capacity}')
    live = []
    for i in range(capacity // 3 + 50):
        t = factory.transitions()
        live.append(t)
        t.matrix(), t.states_next(), t.states_prev()
        require(len(caching._POOL._entries) <= capacity, 'pool over budget')
    require(len(caching._POOL._entries) == capacity, 'pool should be full by now')
    # the oldest objects were evicted, everything is still right
    for t in live[:20] + live[-20:]:
        for name in ('matrix', 'states_next', 'states_prev'):
            check_query(t, name, (), {}, where='pool eviction: ')
    info = caching.stats()
    require(info['Transitions.matrix']['misses'] >= len(live), f'stats {info["Transitions.matrix"]}')
    require(sum(v['entries'] for v in info.values()) == len(caching._POOL._entries), 'stats entries')
    # dead objects are swept out after a while
    del live, t
    gc.collect()
    keep = [factory.transitions() for _ in range(caching._POOL.SWEEP_EVERY + 1)]
    for t in keep:
        t.matrix()
    dead = sum(1 for key in caching._POOL._entries if key[1]() is None)
    require(dead <= caching._POOL.SWEEP_EVERY, f'{dead} dead entries after sweeping')
    caching.clear()
    require(len(caching._POOL._entries) == 0, 'clear()')
    for t in keep[:5]:
        check_query(t, 'matrix', (), {}, where='after clear: ')
    Transitions.matrix.cache_clear()
    check_query(keep[0], 'matrix', (), {}, where='after cache_clear: ')


def check_descriptor(factory):
    t = factory.transitions()
    require(same(Transitions.matrix(t), t.matrix()), 'call through the class')
    require(same(Transitions.states_next(t), Transitions.states_next.__wrapped__(t)), 'call through the class')

    class Sub(Transitions):
        def matrix(self):
            return super().matrix() * 2

    s = Sub(trajectory=t.trajectory, diff_trajectory=t.diff_trajectory, sites=t.sites,
            events=t.events, states=t.states, inner_states=t.inner_states)
    require(same(s.matrix(), t.matrix() * 2), 'super() access')
    bound = t.states_prev
    del t
    require(same(bound(), bound.__wrapped__(bound.__self__)), 'bound method keeps working')


def run_specific():
    factory = Factory()
    check_deflated_arrays()
    check_descriptor(factory)
    check_pool(factory)

if __name__ == '__main__':
    try:
        run_specific()
        info = run_common()
    except Failure as exc:
        print('FAIL:', exc)
        sys.exit(1)
    print('OK:', info)
    sys.exit(0)
