#!/venv/bin/python
"""CLI of the verification machinery.

  run_check.py <C15|C16|C20> <quick|thorough>     run a check, rewrite evidence/<id>.json
  run_check.py --replay <file>                    re-execute a replay file (exit 1 if it reproduces)

exit 0: property held on everything explored (KNOWN-FINDING lines possible)
exit 1: at least one "VIOLATION property=<id> replay=<path>" line
exit 2: harness error (never a violation, never a pass)
"""

from __future__ import annotations

import os
import sys

for _v in ('OMP_NUM_THREADS', 'OPENBLAS_NUM_THREADS', 'MKL_NUM_THREADS', 'NUMEXPR_NUM_THREADS'):
    os.environ[_v] = '1'
os.environ.setdefault('PYTHONDONTWRITEBYTECODE', '1')
sys.dont_write_bytecode = True

HERE = os.path.dirname(os.path.abspath(__file__))
if HERE not in sys.path:
    sys.path.insert(0, HERE)

import hashlib  # noqa: E402
import importlib  # noqa: E402
import json  # noqa: E402
import shutil  # noqa: E402
import subprocess  # noqa: E402
import tempfile  # noqa: E402
import time  # noqa: E402
import traceback  # noqa: E402

from sim import shrink as shrinker  # noqa: E402
from sim.core import merge_counts, run_seed_for  # noqa: E402
from sim.runner import ForkPool, Job, freeze_heap  # noqa: E402

ENGINES = {'C15': 'engines.c15_history', 'C16': 'engines.c16_cache', 'C20': 'engines.c20_memo'}
REPO_SRC = os.environ.get('VERIF_REPO_SRC', '/repo/src')


def load_engine(prop: str):
    if REPO_SRC != '/repo/src':
        sys.path.insert(0, REPO_SRC)
    eng = importlib.import_module(ENGINES[prop])
    eng.setup()
    import gemdat

    want = os.path.realpath(REPO_SRC)
    got = os.path.realpath(os.path.dirname(os.path.dirname(gemdat.__file__)))
    if got != want:
        raise RuntimeError(f'gemdat imported from {got}, expected {want}')
    return eng


def default_tmp() -> str:
    """Scratch space of a run (created and removed by the run itself): RAM-backed if available, else next to the evidence."""
    shm = '/dev/shm'
    if os.path.isdir(shm) and os.access(shm, os.W_OK):
        return os.path.join(shm, f'verif_tmp_{os.getuid()}')
    return os.path.join(HERE, '.tmp')


def load_known_findings():
    p = os.path.join(HERE, 'known_findings.json')
    if not os.path.exists(p):
        return []
    with open(p) as f:
        return json.load(f).get('findings', [])


def match_known(v: dict, prop: str, known: list):
    for k in known:
        if k.get('status') != 'known' or k.get('property') != prop:
            continue
        if k.get('class') != v['class']:
            continue
        sig = k.get('signature') or {}
        if all(v.get('signature', {}).get(a) == b for a, b in sig.items()):
            return k
    return None


def child_fn(eng, tier):
    def fn(payload, workdir):
        if payload['mode'] == 'seed':
            sc = eng.generate(payload['seed'], tier, payload.get('stream', 'seq'))
        else:
            sc = payload['scenario']
        res = eng.execute(sc, workdir, keep_events=bool(payload.get('events')))
        if res.get('violation') and payload['mode'] == 'seed':
            res['scenario'] = sc
        res['n_ops'] = len(sc['ops'])
        return res

    return fn


def replay_main(path: str) -> int:
    with open(path) as f:
        rp = json.load(f)
    prop = rp['property']
    eng = load_engine(prop)
    tmp = tempfile.mkdtemp(prefix='replay_', dir=os.environ.get('VERIF_TMP') or None)
    try:
        pool = ForkPool(child_fn(eng, 'quick'), 1, tmp, per_run_timeout=600)
        res = pool.run_one({'mode': 'scenario', 'scenario': rp['scenario'], 'events': True})
    finally:
        shutil.rmtree(tmp, ignore_errors=True)
    if res.get('harness_error') or res.get('harness_timeout'):
        print('HARNESS-ERROR', res.get('harness_error'), res.get('traceback', ''))
        return 2
    v = res.get('violation')
    print(json.dumps({'digest': res['digest'], 'violation': v, 'steps': res['steps']}, indent=1))
    if os.environ.get('VERIF_REPLAY_EVENTS') == '1':
        for e in res.get('events', []):
            print(json.dumps(e, sort_keys=True))
    if v:
        print(f"REPRODUCED class={v['class']} digest_match={res['digest'] == rp.get('digest')}")
        print(f'VIOLATION property={prop} replay={path}')
        return 1
    print('NOT-REPRODUCED')
    return 0


def fresh_interpreter_digests(prop, tier, seeds, hashseed: str):
    """Digests of the given run seeds computed in a new interpreter under another PYTHONHASHSEED."""
    env = dict(os.environ)
    env['PYTHONHASHSEED'] = hashseed
    code = (
        'import sys, json, os, tempfile, shutil\n'
        f'sys.path.insert(0, {HERE!r})\n'
        'import run_check\n'
        f'eng = run_check.load_engine({prop!r})\n'
        'from sim.runner import ForkPool, Job\n'
        "tmp = tempfile.mkdtemp(prefix='fresh_', dir=os.environ.get('VERIF_TMP') or None)\n"
        f'pool = ForkPool(run_check.child_fn(eng, {tier!r}), 4, tmp, per_run_timeout=300)\n'
        'out = {}\n'
        f'seeds = {list(seeds)!r}\n'
        "pool.map([Job(s, {'mode': 'seed', 'seed': s}) for s in seeds], on_result=lambda j, r: out.__setitem__(str(j.key), r.get('digest')))\n"
        'shutil.rmtree(tmp, ignore_errors=True)\n'
        "print('DIGESTS ' + json.dumps(out))\n"
    )
    p = subprocess.run([sys.executable, '-c', code], env=env, capture_output=True, text=True, timeout=900)
    for line in p.stdout.splitlines():
        if line.startswith('DIGESTS '):
            return {int(k): v for k, v in json.loads(line[8:]).items()}
    raise RuntimeError('fresh interpreter failed: ' + p.stderr[-2000:])


def check_main(prop: str, tier: str) -> int:
    t_start = time.monotonic()
    batch_seed = int(os.environ.get('VERIF_SEED', '0'))
    workers = int(os.environ.get('VERIF_WORKERS', str(len(os.sched_getaffinity(0)) or 4)))
    eng = load_engine(prop)
    budget = float(os.environ.get('VERIF_BUDGET_S', eng.BUDGET[tier]))
    tmp_parent = os.environ.get('VERIF_TMP') or default_tmp()
    os.makedirs(tmp_parent, exist_ok=True)
    tmp = tempfile.mkdtemp(prefix=f'{prop}_', dir=tmp_parent)
    known = load_known_findings()
    freeze_heap()
    pool = ForkPool(child_fn(eng, tier), workers, tmp, per_run_timeout=float(os.environ.get('VERIF_RUN_TIMEOUT', eng.RUN_TIMEOUT)))

    agg = {
        'runs': 0, 'steps': 0, 'oracle_checks': 0, 'faults': {}, 'probes': {}, 'relaxed': {}, 'states': set(),
        'digests_nontrivial': set(), 'nontrivial_runs': 0, 'fault_free_runs': 0, 'harness_errors': [], 'timeouts': 0,
        'violations': [], 'ops_total': 0, 'known_counts': {},
    }
    digests_by_seed = {}
    max_viol = 12

    def on_result(job, res):
        if res.get('harness_timeout'):
            agg['timeouts'] += 1
            agg['harness_errors'].append({'key': str(job.key), 'error': 'HARNESS-TIMEOUT', 'traceback': res.get('stack')})
            return
        if res.get('harness_error'):
            agg['harness_errors'].append({'key': str(job.key), 'error': res['harness_error'], 'traceback': res.get('traceback')})
            return
        agg['runs'] += 1
        agg['steps'] += res['steps']
        agg['ops_total'] += res.get('n_ops', 0)
        agg['oracle_checks'] += res.get('oracle_checks', 0)
        st = res['stats']
        merge_counts(agg['faults'], st['faults'])
        merge_counts(agg['probes'], st['probes'])
        merge_counts(agg['relaxed'], st.get('relaxed', {}))
        agg['states'].update(st['states'])
        if res.get('fault_free'):
            agg['fault_free_runs'] += 1
        if res.get('nontrivial'):
            agg['nontrivial_runs'] += 1
            agg['digests_nontrivial'].add(res['digest'])
        if job.payload['mode'] == 'seed':
            digests_by_seed[job.payload['seed']] = res['digest']
        if res.get('violation'):
            sc = res.get('scenario') or job.payload.get('scenario')
            kf = match_known(res['violation'], prop, known)
            if kf is not None:
                # a listed finding: counted, the first occurrence is kept for the KNOWN-FINDING line, never part of the alarm budget
                agg['known_counts'][kf.get('id')] = agg['known_counts'].get(kf.get('id'), 0) + 1
                if agg['known_counts'][kf.get('id')] > 1:
                    return
            agg['violations'].append({'violation': res['violation'], 'scenario': sc, 'digest': res['digest'], 'key': str(job.key)})

    def too_many():
        n_new = sum(1 for it in agg['violations'] if match_known(it['violation'], prop, known) is None)
        return n_new >= max_viol or len(agg['harness_errors']) > 20

    # phase A: enumerated scenarios (C16 crash points), if the engine has them
    enum_info = None
    if hasattr(eng, 'plan_enumeration'):
        enum_jobs, enum_info = eng.plan_enumeration(tier, batch_seed, os.path.join(tmp, 'plan'))
        pool.map((Job(f'enum{i}', {'mode': 'scenario', 'scenario': sc}) for i, sc in enumerate(enum_jobs)), on_result=on_result, stop_flag=too_many)
        enum_info['scenarios_run'] = agg['runs']
        enum_info['wall_s'] = round(time.monotonic() - t_start, 1)

    # phase B: seeded sequences under the wall budget
    t_seq = time.monotonic()
    deadline = t_seq + budget
    seq_runs_before = agg['runs']

    def seed_jobs():
        i = 0
        while True:
            s = run_seed_for(prop, batch_seed, i)
            yield Job(i, {'mode': 'seed', 'seed': s})
            i += 1

    max_runs = int(os.environ.get('VERIF_MAX_RUNS', '0'))
    if max_runs:
        import itertools

        pool.map(itertools.islice(seed_jobs(), max_runs), on_result=on_result, stop_flag=too_many)
    else:
        pool.map(seed_jobs(), deadline=deadline, on_result=on_result, stop_flag=too_many)
    seq_runs = agg['runs'] - seq_runs_before
    seq_wall = time.monotonic() - t_seq

    # phase C: determinism self-check (same seed twice in this batch + fresh interpreter, other hash seed)
    det = {'seeds': 0, 'mismatch_same_process': 0, 'mismatch_fresh_interpreter': 0}
    if int(os.environ.get('VERIF_DET_SEEDS', eng.DET_SEEDS[tier])) > 0:
        n_det = int(os.environ.get('VERIF_DET_SEEDS', eng.DET_SEEDS[tier]))
        seeds = [run_seed_for(prop, batch_seed, i) for i in range(n_det)]
        seeds = [s for s in seeds if s in digests_by_seed]
        again = {}
        p1 = ForkPool(child_fn(eng, tier), 1, tmp, per_run_timeout=pool.per_run_timeout)
        p1.map([Job(s, {'mode': 'seed', 'seed': s}) for s in seeds], on_result=lambda j, r: again.__setitem__(j.key, r.get('digest')))
        det['seeds'] = len(seeds)
        det['mismatch_same_process'] = sum(1 for s in seeds if again.get(s) != digests_by_seed[s])
        try:
            fresh = fresh_interpreter_digests(prop, tier, seeds[: max(4, len(seeds) // 2)], hashseed='12345')
            det['fresh_seeds'] = len(fresh)
            det['mismatch_fresh_interpreter'] = sum(1 for s, d in fresh.items() if d != digests_by_seed[s])
        except Exception as e:  # noqa: BLE001
            agg['harness_errors'].append({'key': 'fresh', 'error': f'{type(e).__name__}: {e}'})
        if det['mismatch_same_process'] or det['mismatch_fresh_interpreter']:
            agg['harness_errors'].append({'key': 'determinism', 'error': f'digest mismatch {det}'})

    # violations: dedupe by (class, signature), minimise, write replay, verify replay in a fresh interpreter
    out_lines = []
    reported = []
    known_seen = []
    seen = set()
    rp_dir = os.path.join(os.environ.get('VERIF_REPLAY_DIR') or os.path.join(HERE, 'replays'), prop)
    pshr = ForkPool(child_fn(eng, tier), 1, tmp, per_run_timeout=pool.per_run_timeout)
    for item in agg['violations']:
        v = item['violation']
        sigkey = json.dumps([v['class'], v.get('signature')], sort_keys=True)
        if sigkey in seen:
            continue
        seen.add(sigkey)
        k = match_known(v, prop, known)
        sc = item['scenario']
        small, n_exec = shrinker.shrink(
            sc, v, lambda c: pshr.run_one({'mode': 'scenario', 'scenario': c}), eng,
            max_execs=int(os.environ.get('VERIF_SHRINK_EXECS', '300')), max_wall=float(os.environ.get('VERIF_SHRINK_WALL', '90')),
        )
        res2 = pshr.run_one({'mode': 'scenario', 'scenario': small})
        if not shrinker.same_failure(res2, v):
            small, res2 = sc, pshr.run_one({'mode': 'scenario', 'scenario': sc})
        os.makedirs(rp_dir, exist_ok=True)
        name = hashlib.sha1(json.dumps(small, sort_keys=True).encode()).hexdigest()[:12]
        path = os.path.join(rp_dir, f'{name}.json')
        with open(path, 'w') as f:
            json.dump({
                'format': 1, 'property': prop, 'violation': res2.get('violation') or v, 'digest': res2.get('digest'),
                'minimised_from': {'ops': len(sc['ops']), 'run_seed': sc.get('run_seed'), 'shrink_execs': n_exec},
                'scenario': small,
            }, f, indent=1)
        # fresh-interpreter replay
        rr = subprocess.run([sys.executable, os.path.join(HERE, 'run_check.py'), '--replay', path], capture_output=True, text=True, timeout=900)
        reproduced = rr.returncode == 1 and 'REPRODUCED' in rr.stdout
        vv = res2.get('violation') or v
        if k:
            known_seen.append(k.get('id'))
            out_lines.append(f"KNOWN-FINDING: property={prop} {k.get('id', '')} {k.get('description', vv['detail'])[:300]} (replay={path})")
        else:
            reported.append({'class': vv['class'], 'signature': vv.get('signature'), 'detail': vv['detail'], 'replay': path,
                             'ops': len(small['ops']), 'reproduced_fresh': reproduced})
            out_lines.append(f"  {vv['class']}: {vv['detail'][:500]}")
            out_lines.append(f'VIOLATION property={prop} replay={path}')
    # known findings listed but not seen in this run are still printed as KNOWN-FINDING (they are listed facts)
    for k in known:
        if k.get('status') == 'known' and k.get('property') == prop and k.get('id') not in known_seen:
            out_lines.append(f"KNOWN-FINDING: property={prop} {k.get('id', '')} {k.get('description', '')[:300]} (not re-observed in this run)")

    wall = time.monotonic() - t_start
    samples = []
    for i in range(3):
        sc = eng.generate(run_seed_for(prop, batch_seed, i), tier, 'seq')
        samples.append({'run_seed': sc['run_seed'], 'config': sc.get('config'), 'world': sc.get('world'), 'ops': sc['ops'][:40]})
    cov = {
        'evaluations': agg['runs'],
        'distinct_nontrivial': len(agg['digests_nontrivial']),
        'rule': eng.RULE,
        'samples': samples,
        'runs_per_hour': int(seq_runs / seq_wall * 3600) if seq_wall > 0 else 0,
        'sequence_runs': seq_runs,
        'seeds': {'batch_seed': batch_seed, 'derivation': "run_seed(i)=sha256('<prop>:seq:<VERIF_SEED>:<i>')[:8]", 'first_run_seed': run_seed_for(prop, batch_seed, 0),
                  'last_index': max(0, seq_runs - 1)},
        'steps_total': agg['steps'],
        'ops_total': agg['ops_total'],
        'oracle_comparisons': agg['oracle_checks'],
        'simulated_time': 'none: the code under test has no clock; progress is measured in logical steps',
        'faults_fired': dict(sorted(agg['faults'].items())),
        'probes': dict(sorted(agg['probes'].items())),
        'relaxations_used': dict(sorted(agg['relaxed'].items())),
        'distinct_states': len(agg['states']),
        'distinct_states_measure': eng.STATE_MEASURE,
        'nontrivial_runs': agg['nontrivial_runs'],
        'fault_free_runs': agg['fault_free_runs'],
        'fault_injecting_runs': agg['runs'] - agg['fault_free_runs'],
        'real_vs_stub': eng.REAL_VS_STUB,
        'determinism_selfcheck': det,
        'known_findings_seen': known_seen,
        'known_findings_counts': agg['known_counts'],
        'violations_reported': reported,
        'harness_errors': agg['harness_errors'][:10],
        'workers': workers,
    }
    if enum_info is not None:
        cov['enumeration'] = enum_info
        cov['exhaustive'] = bool(enum_info.get('exhaustive'))
    ev = {
        'property_id': prop,
        'tier': tier,
        'seed': batch_seed,
        'level': eng.LEVEL,
        'coverage': cov,
        'assumptions': eng.ASSUMPTIONS,
        'wall_s': round(wall, 2),
        'violations': len(reported),
    }
    evdir = os.path.join(HERE, 'evidence') if os.environ.get('VERIF_NO_EVIDENCE') != '1' else tmp_parent
    os.makedirs(evdir, exist_ok=True)
    evp = os.path.join(evdir, f'{prop}.json')
    with open(evp + '.tmp', 'w') as f:
        json.dump(ev, f, indent=1, sort_keys=False)
    os.replace(evp + '.tmp', evp)
    shutil.rmtree(tmp, ignore_errors=True)
    try:
        os.rmdir(tmp_parent)
    except OSError:
        pass

    print(f'{prop} {tier}: runs={agg["runs"]} (sequence {seq_runs}, {cov["runs_per_hour"]}/h) steps={agg["steps"]} '
          f'oracle_comparisons={agg["oracle_checks"]} distinct_nontrivial={cov["distinct_nontrivial"]} states={cov["distinct_states"]} wall={wall:.1f}s')
    print('faults fired:', json.dumps(cov['faults_fired']))
    print('probes:', json.dumps(cov['probes']))
    print('determinism:', json.dumps(det))
    for line in out_lines:
        print(line)
    if agg['harness_errors']:
        for h in agg['harness_errors'][:5]:
            print('HARNESS-ERROR', h.get('key'), h.get('error'))
            if h.get('traceback'):
                print(h['traceback'])
        if not reported:
            return 2
    return 1 if reported else 0


def digests_main(prop: str, tier: str, n: int, start: int = 0) -> int:
    """Print {index: digest} for runs start..start+n-1 of the batch (used by selftest/determinism.py)."""
    batch_seed = int(os.environ.get('VERIF_SEED', '0'))
    workers = int(os.environ.get('VERIF_WORKERS', str(len(os.sched_getaffinity(0)) or 4)))
    eng = load_engine(prop)
    tmp = tempfile.mkdtemp(prefix=f'det_{prop}_', dir=os.environ.get('VERIF_TMP') or (default_tmp() if os.makedirs(default_tmp(), exist_ok=True) is None else None))
    freeze_heap()
    pool = ForkPool(child_fn(eng, tier), workers, tmp, per_run_timeout=float(eng.RUN_TIMEOUT))
    out = {}
    pool.map((Job(i, {'mode': 'seed', 'seed': run_seed_for(prop, batch_seed, i)}) for i in range(start, start + n)),
             on_result=lambda j, r: out.__setitem__(str(j.key), r.get('digest') or r.get('harness_error') or 'TIMEOUT'))
    shutil.rmtree(tmp, ignore_errors=True)
    print('DIGESTS ' + json.dumps(out, sort_keys=True))
    return 0


def main(argv):
    if len(argv) >= 2 and argv[0] == '--replay':
        return replay_main(argv[1])
    if len(argv) >= 4 and argv[0] == '--digests':
        return digests_main(argv[1], argv[2], int(argv[3]), int(argv[4]) if len(argv) > 4 else 0)
    if len(argv) != 2 or argv[0] not in ENGINES or argv[1] not in ('quick', 'thorough'):
        print(__doc__)
        return 2
    try:
        return check_main(argv[0], argv[1])
    except Exception:  # noqa: BLE001
        print('HARNESS-ERROR', traceback.format_exc())
        return 2


if __name__ == '__main__':
    sys.exit(main(sys.argv[1:]))
