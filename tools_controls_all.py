#!/venv/bin/python
"""Run the quick check of the matching property against every behaviour-preserving control under /verif/controls; all must stay silent."""
import json, os, subprocess, sys
HERE = os.path.dirname(os.path.abspath(__file__))
res = {}
ok = True
for name in sorted(os.listdir(os.path.join(HERE, 'controls'))):
    d = os.path.join(HERE, 'controls', name)
    if not os.path.isdir(d):
        continue
    meta = json.load(open(os.path.join(d, 'meta.json')))
    if meta.get('skip_in_batch'):
        print(name, 'EXCLUDED (see meta.json)', flush=True)
        continue
    p = subprocess.run([sys.executable, os.path.join(HERE, 'tools_refactor.py'), d, meta['property']], capture_output=True, text=True)
    try:
        out = json.loads(p.stdout)
    except Exception:
        out = {'error': p.stdout[-300:] + p.stderr[-300:]}
    res[name] = {k: out.get(k) for k in ('check_exit', 'classes', 'wall', 'error', 'repo_clean_after')}
    silent = out.get('check_exit') == 0
    ok = ok and silent
    print(name, 'SILENT' if silent else 'ALARM', res[name], flush=True)
json.dump(res, open(os.path.join(HERE, 'controls', 'results.json'), 'w'), indent=1)
print('ALL SILENT' if ok else 'SOME ALARMS')
