#!/venv/bin/python
"""Run the quick check of the matching property against every seeded change under /verif/seeded and record the outcome."""
import json, os, subprocess, sys
HERE = os.path.dirname(os.path.abspath(__file__))
res = {}
only = set(sys.argv[1:])
for name in sorted(os.listdir(os.path.join(HERE, 'seeded'))):
    d = os.path.join(HERE, 'seeded', name)
    if not os.path.isdir(d) or (only and name.split('_')[0] not in only):
        continue
    meta = json.load(open(os.path.join(d, 'meta.json')))
    p = subprocess.run([sys.executable, os.path.join(HERE, 'tools_seeded.py'), d, meta['property'], '--skip-confirm'], capture_output=True, text=True)
    try:
        out = json.loads(p.stdout)
    except Exception:
        out = {'error': p.stdout[-500:] + p.stderr[-500:]}
    res[name] = {k: out.get(k) for k in ('caught', 'classes', 'check_wall_s', 'check_exit', 'error', 'repo_clean_after')}
    print(name, res[name], flush=True)
path = os.path.join(HERE, 'seeded', 'results.json')
old = json.load(open(path)) if os.path.exists(path) and only else {}
old.update(res)
json.dump(old, open(path, 'w'), indent=1)
