"""Batch driver: fork-per-run isolation, budgets, result collection.

The parent process imports the heavy libraries once (engine.setup()), freezes the
heap (gc.freeze) and then forks one child per simulated run.  The child executes
exactly one run and reports a JSON result through a pipe before os._exit, so every
run starts from the same heap, the same (empty) lru caches and its own working
directory.  Wall-clock is read only here, never inside a run.
"""

from __future__ import annotations

import faulthandler
import gc
import json
import os
import selectors
import shutil
import signal
import sys
import time
import traceback


def _write_all(fd: int, data: bytes):
    mv = memoryview(data)
    while mv:
        n = os.write(fd, mv)
        mv = mv[n:]


class Job:
    __slots__ = ('key', 'payload')

    def __init__(self, key, payload):
        self.key = key  # opaque id returned with the result
        self.payload = payload  # passed to fn in the child


class ForkPool:
    """Run ``fn(payload, workdir)`` in a forked child per job, at most ``workers`` at once."""

    def __init__(self, fn, workers: int, tmp_root: str, per_run_timeout: float = 120.0, quiet: bool = True):
        self.fn = fn
        self.workers = max(1, workers)
        self.tmp_root = tmp_root
        self.per_run_timeout = per_run_timeout
        self.quiet = quiet
        self._serial = 0
        os.makedirs(tmp_root, exist_ok=True)
        # address-space cap for children: garbage pickles can ask for absurd allocations; fail fast with MemoryError
        try:
            vm = int(open('/proc/self/status').read().split('VmSize:')[1].split()[0]) * 1024
        except Exception:  # noqa: BLE001
            vm = 1 << 30
        self.mem_limit = vm + (4 << 30)

    def _spawn(self, job: Job):
        self._serial += 1
        workdir = os.path.join(self.tmp_root, f'r{os.getpid()}_{self._serial}')
        r, w = os.pipe()
        sys.stdout.flush()
        sys.stderr.flush()
        pid = os.fork()
        if pid == 0:
            # ---- child ----
            code = 0
            try:
                os.close(r)
                signal.signal(signal.SIGINT, signal.SIG_IGN)
                os.makedirs(workdir, exist_ok=True)
                stackf = open(workdir + '.stack', 'w')
                faulthandler.enable(file=stackf)
                faulthandler.dump_traceback_later(self.per_run_timeout * 0.8, exit=False, file=stackf)
                try:
                    import resource

                    lim = self.mem_limit
                    if lim:
                        resource.setrlimit(resource.RLIMIT_AS, (lim, lim))
                except Exception:  # noqa: BLE001
                    pass
                os.chdir(workdir)
                if self.quiet:
                    dn = os.open(os.devnull, os.O_WRONLY)
                    os.dup2(dn, 1)
                    if os.environ.get('VERIF_CHILD_STDERR') != '1':
                        os.dup2(dn, 2)
                try:
                    res = self.fn(job.payload, workdir)
                except BaseException as e:  # harness failure, never a violation
                    res = {
                        'harness_error': f'{type(e).__name__}: {e}',
                        'traceback': traceback.format_exc()[-4000:],
                    }
                data = json.dumps(res).encode()
                _write_all(w, data)
                os.close(w)
            except BaseException:
                code = 3
            finally:
                try:
                    os.chdir('/')
                    shutil.rmtree(workdir, ignore_errors=True)
                    if code == 0:
                        os.unlink(workdir + '.stack')
                finally:
                    os._exit(code)
        os.close(w)
        return pid, r, workdir

    def map(self, jobs, deadline: float | None = None, on_result=None, stop_flag=None):
        """Run jobs (an iterator of Job). Yields nothing; calls on_result(job, result).

        Stops *starting* new jobs when ``deadline`` (time.monotonic) passes or
        stop_flag() is true; jobs already started are always finished or timed out.
        """
        sel = selectors.DefaultSelector()
        active = {}
        it = iter(jobs)
        exhausted = False
        try:
            while True:
                while (
                    not exhausted
                    and len(active) < self.workers
                    and (deadline is None or time.monotonic() < deadline)
                    and not (stop_flag and stop_flag())
                ):
                    try:
                        job = next(it)
                    except StopIteration:
                        exhausted = True
                        break
                    pid, fd, workdir = self._spawn(job)
                    active[fd] = [pid, job, time.monotonic(), bytearray(), workdir]
                    sel.register(fd, selectors.EVENT_READ)
                if not active:
                    if exhausted or (deadline is not None and time.monotonic() >= deadline) or (stop_flag and stop_flag()):
                        break
                    continue
                for key, _ in sel.select(timeout=0.2):
                    fd = key.fd
                    ent = active[fd]
                    chunk = os.read(fd, 1 << 16)
                    if chunk:
                        ent[3] += chunk
                        continue
                    sel.unregister(fd)
                    os.close(fd)
                    del active[fd]
                    pid, job, t0, buf, workdir = ent
                    _, status = os.waitpid(pid, 0)
                    shutil.rmtree(workdir, ignore_errors=True)
                    try:
                        os.unlink(workdir + '.stack')
                    except OSError:
                        pass
                    if buf:
                        try:
                            res = json.loads(bytes(buf))
                        except Exception as e:
                            res = {'harness_error': f'bad result json: {e}'}
                    else:
                        res = {'harness_error': f'child died without result (status {status})'}
                    res['wall_s'] = time.monotonic() - t0
                    if on_result:
                        on_result(job, res)
                now = time.monotonic()
                for fd, ent in list(active.items()):
                    if now - ent[2] > self.per_run_timeout:
                        pid, job, t0, buf, workdir = ent
                        try:
                            os.kill(pid, signal.SIGKILL)
                        except ProcessLookupError:
                            pass
                        os.waitpid(pid, 0)
                        sel.unregister(fd)
                        os.close(fd)
                        del active[fd]
                        shutil.rmtree(workdir, ignore_errors=True)
                        stack = ''
                        try:
                            stack = open(workdir + '.stack').read()[-3000:]
                            os.unlink(workdir + '.stack')
                        except OSError:
                            pass
                        if on_result:
                            on_result(job, {'harness_timeout': True, 'wall_s': now - t0, 'stack': stack})
        finally:
            for fd, ent in list(active.items()):
                try:
                    os.kill(ent[0], signal.SIGKILL)
                    os.waitpid(ent[0], 0)
                except Exception:
                    pass
                try:
                    os.close(fd)
                except Exception:
                    pass
                shutil.rmtree(ent[4], ignore_errors=True)
            sel.close()

    def run_one(self, payload):
        """Convenience: run a single job synchronously in a fork and return its result."""
        out = []
        self.map([Job(0, payload)], on_result=lambda j, r: out.append(r))
        return out[0]


def freeze_heap():
    gc.collect()
    gc.freeze()
