"""Minimisation of a failing scenario: ddmin over the op list, then per-op and
world simplification offered by the engine.  A candidate is accepted iff a forked
replay yields a violation of the same class and signature."""

from __future__ import annotations

import copy
import time


def same_failure(res: dict, target: dict) -> bool:
    v = res.get('violation')
    if not v:
        return False
    return v['class'] == target['class'] and v.get('signature') == target.get('signature')


def shrink(scenario: dict, target: dict, run, engine, max_execs: int = 300, max_wall: float = 90.0):
    """Return (minimised_scenario, n_execs). ``run(scenario) -> result``."""
    t0 = time.monotonic()
    execs = 0
    best = copy.deepcopy(scenario)

    def budget_ok():
        return execs < max_execs and time.monotonic() - t0 < max_wall

    def test(cand):
        nonlocal execs
        execs += 1
        res = run(cand)
        return same_failure(res, target)

    # 0. cut everything after the failing step
    step = target.get('step')
    if step is not None and step + 1 < len(best['ops']):
        cand = copy.deepcopy(best)
        cand['ops'] = cand['ops'][: step + 1]
        if test(cand):
            best = cand

    # 1. ddmin over ops
    n = 2
    while len(best['ops']) >= 2 and budget_ok():
        ops = best['ops']
        chunk = max(1, len(ops) // n)
        reduced = False
        i = 0
        while i < len(ops) and budget_ok():
            cand = copy.deepcopy(best)
            cand['ops'] = ops[:i] + ops[i + chunk :]
            if cand['ops'] and test(cand):
                best = cand
                ops = best['ops']
                reduced = True
                n = max(n - 1, 2)
            else:
                i += chunk
        if not reduced:
            if chunk == 1:
                break
            n = min(len(ops), n * 2)

    # 2. engine-specific simplifications (args, world), to fixpoint
    changed = True
    while changed and budget_ok():
        changed = False
        for cand in engine.simplify(best):
            if not budget_ok():
                break
            if test(cand):
                best = cand
                changed = True
                break
    return best, execs
