"""Helper run in a *fresh interpreter* by the C16 engine's real-process-death scenarios.

  python real_death_child.py crash   <fmt> <dir> <args_idx> <k>        loader call; the process really dies (os._exit(137))
                                                                      after k bytes of the cache write
  python real_death_child.py recover <fmt> <dir> <args_idx> <out.pkl>  two loader calls after the "reboot"; records are pickled to out
"""
import os
import pickle
import sys
import warnings

for _v in ('OMP_NUM_THREADS', 'OPENBLAS_NUM_THREADS', 'MKL_NUM_THREADS'):
    os.environ[_v] = '1'
sys.dont_write_bytecode = True
HERE = os.path.dirname(os.path.dirname(os.path.abspath(__file__)))
sys.path.insert(0, HERE)
if os.environ.get('VERIF_REPO_SRC'):
    sys.path.insert(0, os.environ['VERIF_REPO_SRC'])
warnings.filterwarnings('ignore')


def main():
    from sim import worlds
    from sim.simfs import SimFS

    phase, fmt, dirpath, args_idx = sys.argv[1], sys.argv[2], sys.argv[3], int(sys.argv[4])
    from gemdat import Trajectory

    import json

    dataset = None
    if os.path.exists('dataset.json'):
        with open('dataset.json') as f:
            dataset = json.load(f)
    name, kw = worlds.loader_call(fmt, dirpath, worlds.ARGSETS[fmt][args_idx], None, dataset=dataset)
    if phase == 'crash':
        fs = SimFS(real_exit=True)
        fs.install()
        fs.begin_op({'kind': 'crash_write', 'k': int(sys.argv[5])})
        getattr(Trajectory, name)(**kw)
        os._exit(3)  # the write finished without reaching byte k and close() did not fire: should not happen
    from engines.c16_cache import traj_record

    out = []
    for _ in range(2):
        try:
            out.append(('ret', traj_record(getattr(Trajectory, name)(**kw))))
        except Exception as e:  # noqa: BLE001
            out.append(('exc', type(e).__name__, str(e)[:200]))
    with open(sys.argv[5], 'wb') as f:
        pickle.dump(out, f)


if __name__ == '__main__':
    main()
