"""Seeded synthetic systems: lattices, trajectories and simulation source files
(LAMMPS data+xyz, minimal vasprun.xml, GROMACS gro+xtc) that the real parsers read
offline.  Everything is a pure function of JSON-able parameter dicts so that a
replay file can regenerate the identical world."""

from __future__ import annotations

import math
import os

import numpy as np

SPECIES_POOL = ['Li', 'Na', 'S', 'Si', 'P', 'O']


# ---------------------------------------------------------------------------
# lattices


def gen_lattice_params(rng, kinds=('cubic', 'ortho', 'hex', 'tri'), lo=3.0, hi=9.0) -> dict:
    kind = rng.pick(list(kinds))
    a = round(rng.uniform(lo, hi), 3)
    if kind == 'cubic':
        p = [a, a, a, 90.0, 90.0, 90.0]
    elif kind == 'ortho':
        p = [a, round(rng.uniform(lo, hi), 3), round(rng.uniform(lo, hi), 3), 90.0, 90.0, 90.0]
    elif kind == 'hex':
        p = [a, a, round(rng.uniform(lo, hi), 3), 90.0, 90.0, 120.0]
    else:
        while True:
            ang = [round(rng.uniform(62.0, 118.0), 2) for _ in range(3)]
            al, be, ga = (math.radians(x) for x in ang)
            v2 = 1 - math.cos(al) ** 2 - math.cos(be) ** 2 - math.cos(ga) ** 2 + 2 * math.cos(al) * math.cos(be) * math.cos(ga)
            if v2 > 0.15:
                break
        p = [a, round(rng.uniform(lo, hi), 3), round(rng.uniform(lo, hi), 3)] + ang
    rot = None
    if rng.chance(0.3):
        rot = [round(rng.uniform(-math.pi, math.pi), 4) for _ in range(3)]
    return {'kind': kind, 'params': p, 'rot': rot}


def lattice_matrix(lp: dict) -> np.ndarray:
    from pymatgen.core import Lattice

    m = np.array(Lattice.from_parameters(*lp['params']).matrix)
    if lp.get('rot'):
        rx, ry, rz = lp['rot']
        cx, sx, cy, sy, cz, sz = math.cos(rx), math.sin(rx), math.cos(ry), math.sin(ry), math.cos(rz), math.sin(rz)
        Rx = np.array([[1, 0, 0], [0, cx, -sx], [0, sx, cx]])
        Ry = np.array([[cy, 0, sy], [0, 1, 0], [-sy, 0, cy]])
        Rz = np.array([[cz, -sz, 0], [sz, cz, 0], [0, 0, 1]])
        m = m @ (Rz @ Ry @ Rx).T
    return m


# ---------------------------------------------------------------------------
# datasets for the loaders (C16)


def gen_dataset_params(rng, fmt: str | None = None, small: bool = False, big: bool = False) -> dict:
    fmt = fmt or rng.pick(['lammps', 'vasp', 'gromacs'])
    if big:
        na, nf = rng.randint(6, 10), rng.randint(4000, 20000)
    elif small:
        na, nf = rng.randint(1, 3), rng.randint(2, 5)
    else:
        na, nf = rng.randint(1, 8), rng.randint(2, 12)
        if rng.chance(0.08):  # swarm: an occasional medium-size dataset (several pickle frames / write() calls)
            na, nf = rng.randint(9, 40), rng.randint(13, 400)
    if fmt == 'vasp':
        nf = max(nf, 4)
    n_kinds = rng.randint(1, min(3, na))
    kinds = rng.sample(['Li', 'Na', 'S', 'P', 'O'], n_kinds)
    species = sorted((rng.pick(kinds) for _ in range(na)), key=kinds.index)
    # make sure every kind is present at least once (grouped by kind as VASP does)
    for i, k in enumerate(kinds):
        if k not in species:
            species[i % na] = k
    species = sorted(species, key=kinds.index)
    if fmt == 'gromacs':
        lp = gen_lattice_params(rng, kinds=('cubic', 'ortho'), lo=8.0, hi=16.0)
        lp['rot'] = None
    else:
        lp = gen_lattice_params(rng)
        lp['rot'] = None
    d = {
        'fmt': fmt,
        'na': na,
        'nf': nf,
        'species': species,
        'lattice': lp,
        'coord_seed': rng.getrandbits(32),
        'npt': fmt == 'vasp' and rng.chance(0.5),
    }
    if fmt == 'lammps' and rng.chance(0.25):
        d['lammps_style'] = 'charge'  # data file written in another atom style: loads need atom_style='charge'
    if fmt == 'vasp':
        d['potim'] = rng.pick([1.0, 2.0, 0.5])
        d['tebeg'] = rng.pick([300.0, 600.0, 900.0])
    if fmt == 'gromacs':
        d['dt'] = rng.pick([1.0, 2.0])
    if rng.chance(0.25):
        # an "unwrapped" MD output: atoms carry whole-cell image offsets and keep drifting out of the cell, so the source
        # coordinates lie outside [0, 1) (the loaders wrap coords; base_positions keeps what the file said)
        d['unwrapped'] = True
    return d


def dataset_arrays(d: dict):
    """Ground-truth fractional coordinates and per-frame lattices for a dataset."""
    g = np.random.default_rng(d['coord_seed'])
    na, nf = d['na'], d['nf']
    base = g.random((1, na, 3))
    steps = g.normal(0.0, 0.06, (nf, na, 3))
    steps[0] = 0
    frac = np.mod(base + np.cumsum(steps, axis=0), 1.0)
    if d.get('unwrapped'):
        frac = base + np.cumsum(steps, axis=0) + g.integers(-1, 2, (1, na, 3))
    L0 = lattice_matrix(d['lattice'])
    if d.get('npt'):
        lats = np.array([L0 * (1.0 + 0.004 * i) for i in range(nf)])
    else:
        lats = np.array([L0] * nf)
    return frac, lats


def _varr(name, rows):
    s = [f'<varray name="{name}">\n']
    for r in rows:
        s.append('<v> ' + ' '.join(f'{x:.16f}' for x in r) + ' </v>\n')
    s.append('</varray>\n')
    return ''.join(s)


def _vasp_structure(name, L, X):
    tag = f'<structure name="{name}">' if name else '<structure>'
    rec = np.linalg.inv(L).T
    return (
        tag
        + '\n<crystal>\n'
        + _varr('basis', L)
        + f'<i name="volume"> {abs(np.linalg.det(L)):.8f} </i>\n'
        + _varr('rec_basis', rec)
        + '</crystal>\n'
        + _varr('positions', X)
        + '</structure>\n'
    )


def names_of(d: dict) -> dict:
    """File names of a dataset's sources.  Without a 'stem' the classic names are used; with one (it may contain dots) every
    file is <stem>.<ext>, so that several datasets can live in one directory."""
    st = d.get('stem')
    if d['fmt'] == 'lammps':
        return ({'coords': f'{st}.xyz', 'data': f'{st}.data', 'data2': f'{st}.data2', 'alt_data': f'alt/{st}.data'} if st
                else {'coords': 'coords.xyz', 'data': 'data.txt', 'data2': 'data2.txt', 'alt_data': 'alt/data.txt'})
    if d['fmt'] == 'vasp':
        return {'xml': f'{st}.xml'} if st else {'xml': 'vasprun.xml'}
    return ({'top': f'{st}.gro', 'xtc': f'{st}.xtc', 'top2': f'{st}.top2.gro', 'alt_top': f'alt/{st}.gro'} if st
            else {'top': 'top.gro', 'xtc': 'traj.xtc', 'top2': 'top2.gro', 'alt_top': 'alt/top.gro'})


def source_basenames(d: dict) -> set:
    return {os.path.basename(v) for v in names_of(d).values()}


def write_vasprun(path, lattices, species, frac, potim=2.0, tebeg=600.0):
    nf, na, _ = frac.shape
    types = []
    for s in species:
        if s not in types:
            types.append(s)
    out = ['<?xml version="1.0" encoding="ISO-8859-1"?>\n<modeling>\n']
    out.append(
        '<generator>\n<i name="program" type="string">vasp </i>\n'
        '<i name="version" type="string">5.4.4.18Apr17-6-g9f103f2a35  </i>\n'
        '<i name="subversion" type="string">(build Oct 09 2018 16:32:29) complex parallel </i>\n'
        '<i name="platform" type="string">LinuxIFC </i>\n'
        '<i name="date" type="string">2020 01 01 </i>\n<i name="time" type="string">00:00:00 </i>\n</generator>\n'
    )
    incar = (
        f'<i type="int" name="NSW"> {nf}</i>\n<i type="int" name="IBRION"> 0</i>\n<i type="int" name="NELM"> 60</i>\n'
        f'<i name="POTIM"> {potim:.8f}</i>\n<i name="TEBEG"> {tebeg:.8f}</i>\n'
    )
    out.append('<incar>\n' + incar + '</incar>\n')
    out.append('<parameters>\n' + incar + '</parameters>\n')
    out.append(
        f'<atominfo>\n<atoms> {na} </atoms>\n<types> {len(types)} </types>\n<array name="atoms">\n'
        '<dimension dim="1">ion</dimension>\n<field type="string">element</field>\n'
        '<field type="int">atomtype</field>\n<set>\n'
    )
    for s in species:
        out.append(f'<rc><c>{s:<2}</c><c>{types.index(s) + 1:4d}</c></rc>\n')
    out.append(
        '</set>\n</array>\n<array name="atomtypes">\n<dimension dim="1">type</dimension>\n'
        '<field type="int">atomspertype</field>\n<field type="string">element</field>\n<field>mass</field>\n'
        '<field>valence</field>\n<field type="string">pseudopotential</field>\n<set>\n'
    )
    for t in types:
        out.append(
            f'<rc><c>{species.count(t):4d}</c><c>{t:<2}</c><c> 1.0</c><c> 1.0</c>'
            f'<c>  PAW_PBE {t} 01Jan2000 </c></rc>\n'
        )
    out.append('</set>\n</array>\n</atominfo>\n')
    out.append(_vasp_structure('initialpos', lattices[0], frac[0]))
    en = '<energy>\n<i name="e_fr_energy"> -1.0 </i>\n<i name="e_wo_entrp"> -1.0 </i>\n<i name="e_0_energy"> -1.0 </i>\n</energy>\n'
    for i in range(nf):
        out.append('<calculation>\n<scstep>\n' + en + '</scstep>\n')
        out.append(_vasp_structure('', lattices[i], frac[i]))
        out.append(en + '</calculation>\n')
    out.append(_vasp_structure('finalpos', lattices[-1], frac[-1]))
    out.append('</modeling>\n')
    with open(path, 'w') as f:
        f.write(''.join(out))


def write_lammps(dirpath, L0, species, frac, style='atomic', names=None):
    names = names or {'coords': 'coords.xyz', 'data': 'data.txt', 'data2': 'data2.txt', 'alt_data': 'alt/data.txt'}
    from pymatgen.core import Lattice, Structure
    from pymatgen.io.lammps.data import LammpsData

    s = Structure(Lattice(L0), species, frac[0])
    LammpsData.from_structure(s, atom_style=style).write_file(os.path.join(dirpath, names['data']))
    L = LammpsData.from_file(os.path.join(dirpath, names['data']), atom_style=style).structure.lattice
    lines = []
    na = len(species)
    for i in range(len(frac)):
        cart = L.get_cartesian_coords(frac[i])
        lines.append(f'{na}\nframe {i}\n')
        for sp, c in zip(species, cart):
            lines.append(f'{sp} {c[0]:.8f} {c[1]:.8f} {c[2]:.8f}\n')
    with open(os.path.join(dirpath, names['coords']), 'w') as f:
        f.write(''.join(lines))
    # a second data file for the same coordinates (another cell): same coords_file, different data_file
    s2 = Structure(Lattice(np.asarray(L0) * 1.25), species, frac[0])
    LammpsData.from_structure(s2, atom_style=style).write_file(os.path.join(dirpath, names['data2']))
    # ... and one with the *same file name* in another directory
    os.makedirs(os.path.join(dirpath, 'alt'), exist_ok=True)
    s3 = Structure(Lattice(np.asarray(L0) * 1.5), species, frac[0])
    LammpsData.from_structure(s3, atom_style=style).write_file(os.path.join(dirpath, names['alt_data']))


def write_gromacs(dirpath, box, species, frac, dt=2.0, gnames=None):
    gnames = gnames or {'top': 'top.gro', 'xtc': 'traj.xtc', 'top2': 'top2.gro', 'alt_top': 'alt/top.gro'}
    import MDAnalysis as mda

    nf, na, _ = frac.shape
    cart = (frac * np.asarray(box)[None, None, :]).astype(np.float32)
    u = mda.Universe.empty(na, n_residues=na, atom_resindex=list(range(na)), trajectory=True)
    counts: dict = {}
    names = []
    for s in species:
        counts[s] = counts.get(s, 0) + 1
        names.append(f'{s.upper()}{counts[s]}')
    u.add_TopologyAttr('name', names)
    u.add_TopologyAttr('resname', [f'R{i % 3}' for i in range(na)])
    u.add_TopologyAttr('resid', list(range(1, na + 1)))
    dims = [float(b) for b in box] + [90.0, 90.0, 90.0]
    u.dimensions = dims
    u.atoms.positions = cart[0]
    u.atoms.write(os.path.join(dirpath, gnames['top']))
    # a second topology for the same coordinates (other element names): same coords_file, different topology_file
    swap = {'LI': 'NA', 'NA': 'LI', 'S': 'O', 'O': 'S', 'P': 'S'}
    names2 = []
    counts2: dict = {}
    for s in species:
        t = swap.get(s.upper(), 'LI')
        counts2[t] = counts2.get(t, 0) + 1
        names2.append(f'{t}{counts2[t]}')
    u.atoms.names = names2
    u.atoms.write(os.path.join(dirpath, gnames['top2']))
    os.makedirs(os.path.join(dirpath, 'alt'), exist_ok=True)
    u.atoms.names = list(reversed(names2))
    u.atoms.write(os.path.join(dirpath, gnames['alt_top']))  # same file name, other directory, other content
    u.atoms.names = names
    with mda.Writer(os.path.join(dirpath, gnames['xtc']), na) as w:
        for i in range(nf):
            u.atoms.positions = cart[i]
            u.dimensions = dims
            u.trajectory.ts.time = i * dt
            u.trajectory.ts.frame = i
            w.write(u.atoms)


def write_dataset(d: dict, dirpath: str):
    """Write the source files of dataset ``d`` into ``dirpath``; return source file names."""
    os.makedirs(dirpath, exist_ok=True)
    frac, lats = dataset_arrays(d)
    n = names_of(d)
    if d['fmt'] == 'vasp':
        write_vasprun(os.path.join(dirpath, n['xml']), lats, d['species'], frac, d['potim'], d['tebeg'])
    elif d['fmt'] == 'lammps':
        write_lammps(dirpath, lats[0], d['species'], frac, d.get('lammps_style', 'atomic'), n)
    elif d['fmt'] == 'gromacs':
        write_gromacs(dirpath, d['lattice']['params'][:3], d['species'], frac, d['dt'], n)
    else:
        raise ValueError(d['fmt'])
    return sorted(n.values())


# loader argument sets per format ("configurations" of C16's quantifier)

ARGSETS = {
    'lammps': [
        {'temperature': 300, 'time_step': 1.0},
        {'temperature': 700, 'time_step': 1.0},
        {'temperature': 300, 'time_step': 2.5},
        {'temperature': 300, 'time_step': 1.0, 'type_mapping': 'A'},
        {'temperature': 300, 'time_step': 1.0, 'type_mapping': 'B'},
        {'temperature': 300, 'time_step': 1.0, 'constant_lattice': False},
        {'temperature': 300, 'time_step': 1.0, 'atom_style': 'charge'},
        {'temperature': 700, 'time_step': 2.5, 'type_mapping': 'A'},
        {'temperature': 300, 'time_step': 1.0, '_data': 'data2.txt'},
        {'temperature': 300, 'time_step': 1.0, 'coords_format': 'XYZ'},
    ],
    'vasp': [
        {},
        {'constant_lattice': False},
        {'ionic_step_skip': 2},
        {'ionic_step_skip': 2, 'ionic_step_offset': 1},
        {'parse_dos': False},
        {'ionic_step_skip': 2, 'constant_lattice': False},
        {'ionic_step_skip': 3},
        {'ionic_step_skip': 3, 'ionic_step_offset': 1},
    ],
    'gromacs': [
        {'temperature': 300},
        {'temperature': 450},
        {'temperature': 300, 'constant_lattice': False},
        {'temperature': 300, '_top': 'top2.gro'},
    ],
}

# the option space the seeded sequences draw from: (name, values); the first value is the default (omitted from the call)
OPTION_SPACE = {
    'lammps': [('temperature', [300, 700, 1000.5, 3000, 30]), ('time_step', [1.0, 2.5, 10.0, 0.1]), ('type_mapping', [None, 'A', 'B']), ('constant_lattice', [None, True, False]),
               ('atom_style', [None, 'atomic', 'charge']), ('_data', [None, 'data2.txt', 'alt/data.txt']), ('coords_format', [None, 'xyz', 'XYZ'])],
    'vasp': [('constant_lattice', [None, True, False]), ('ionic_step_skip', [None, 2, 3]), ('ionic_step_offset', [None, 0, 1]), ('parse_dos', [None, False]),
             ('exception_on_bad_xml', [None, True])],
    'gromacs': [('temperature', [300, 450, 3000, 30.0]), ('constant_lattice', [None, True, False]), ('_top', [None, 'top2.gro', 'alt/top.gro'])],
}
REQUIRED = {'lammps': ('temperature', 'time_step'), 'vasp': (), 'gromacs': ('temperature',)}


def _argset_from_digits(fmt, digits):
    out = {}
    for (name, values), dgt in zip(OPTION_SPACE[fmt], digits):
        v = values[dgt]
        if v is None and name not in REQUIRED[fmt]:
            continue
        out[name] = v
    return out


def gen_argsets(rng, fmt: str) -> list:
    """1-4 loader argument sets for one dataset: a random base combination of the whole option space plus
    neighbours that differ from it (or from each other) in exactly one option - the situation in which a cache key that
    forgets an option returns the wrong trajectory."""
    space = OPTION_SPACE[fmt]
    base = []
    for name, values in space:
        # bias towards values that parse (failing combinations are still drawn, they pin the exception outcome)
        w = [3 if i == 0 else 1 for i in range(len(values))]
        if values[-1] in (False, 'charge'):
            w[-1] = 0.4
        base.append(rng.weighted({i: w[i] for i in range(len(values))}))
    out = [base]
    for _ in range(rng.randint(0, 3)):
        src = list(rng.pick(out))
        j = rng.randrange(len(space))
        choices = [i for i in range(len(space[j][1])) if i != src[j]]
        src[j] = rng.pick(choices)
        if src not in out:
            out.append(src)
    sets = [_argset_from_digits(fmt, d) for d in out]
    if fmt == 'lammps' and rng.chance(0.15):
        # "anagram" twins: two option sets whose serialised forms are permutations of the same bytes, with the two adjacent
        # transpositions running in opposite directions (T=3ab, dt=0.ba  vs  T=3ba, dt=0.ab).  A key built from an
        # order-insensitive or checksum-style digest (byte sum, xor, Fletcher/Adler) cannot tell them apart.
        a, b = rng.sample(list(range(1, 10)), 2)
        src = dict(rng.pick(sets))
        sets.append(dict(src, temperature=int(f'3{a}{b}'), time_step=float(f'0.{b}{a}')))
        sets.append(dict(src, temperature=int(f'3{b}{a}'), time_step=float(f'0.{a}{b}')))
    return sets


TYPE_MAPS = {
    'A': {'LI': 'Na', 'NA': 'Li', 'S': 'O', 'P': 'Si', 'O': 'S'},
    'B': {'LI': 'K', 'NA': 'K', 'S': 'Se', 'P': 'As', 'O': 'Te'},
}


def loader_call(fmt: str, dirpath: str, argset: dict, cache, dataset: dict | None = None):
    """Return (callable_name, kwargs) for gemdat.Trajectory loader with relative paths."""
    a = dict(argset)
    if fmt == 'lammps':
        if a.get('type_mapping') is not None:
            a['type_mapping'] = dict(TYPE_MAPS[a['type_mapping']])
        if dataset and dataset.get('lammps_style') == 'charge':
            # for a data file in 'charge' style the roles swap: omitted -> the style the file needs, 'charge' spelled out -> 'atomic' (fails)
            a['atom_style'] = {None: 'charge', 'atomic': 'charge', 'charge': 'atomic'}[a.get('atom_style')]
        n = names_of(dataset) if dataset else names_of({'fmt': 'lammps'})
        which = {None: 'data', 'data.txt': 'data', 'data2.txt': 'data2', 'alt/data.txt': 'alt_data'}[a.pop('_data', None)]
        kw = dict(coords_file=os.path.join(dirpath, n['coords']), data_file=os.path.join(dirpath, n[which]), **a)
        name = 'from_lammps'
    elif fmt == 'vasp':
        n = names_of(dataset) if dataset else names_of({'fmt': 'vasp'})
        kw = dict(xml_file=os.path.join(dirpath, n['xml']), **a)
        name = 'from_vasprun'
    else:
        n = names_of(dataset) if dataset else names_of({'fmt': 'gromacs'})
        which = {None: 'top', 'top.gro': 'top', 'top2.gro': 'top2', 'alt/top.gro': 'alt_top'}[a.pop('_top', None)]
        kw = dict(topology_file=os.path.join(dirpath, n[which]), coords_file=os.path.join(dirpath, n['xtc']), **a)
        name = 'from_gromacs'
    if cache is not None:
        kw['cache'] = cache
    return name, kw
