"""The file seam for C16: a fault-injecting ``open`` for cache files.

Installed for the duration of one simulated run as ``builtins.open`` / ``io.open``
(the name that ``gemdat.trajectory`` resolves its bare ``open(...)`` to, and what
``pathlib.Path.open`` calls).  Only *cache* files are simulated (see ``is_cache``);
every other path - the simulation source files read by pymatgen / MDAnalysis, the
harness' own files - goes straight to the real ``open`` but is *recorded*, so the
engine can tell whether a load touched the sources.

SimFile is unbuffered on the real file system: "bytes written" == "bytes visible
after a crash" holds exactly.
"""

from __future__ import annotations

import builtins
import errno
import io
import os

REAL_OPEN = builtins.open
REAL_OS_OPEN = os.open
REAL_OS_WRITE = os.write
REAL_OS_CLOSE = os.close


class SimCrash(BaseException):
    """Process death at a chosen instant.  Not an ``Exception``: no ``except
    Exception`` in the code under test can swallow it (like SIGKILL)."""


class SimFile:
    def __init__(self, fs: 'SimFS', path: str, mode: str, fd: int):
        self.fs = fs
        self.path = path
        self.mode = mode
        self.fd = fd
        self.closed = False
        self.written = 0
        self.nread_calls = 0
        self.bytes_read = 0

    # -- write side ---------------------------------------------------
    def write(self, data) -> int:
        mv = memoryview(data).cast('B')
        n = len(mv)
        f = self.fs.armed
        self.fs.write_calls += 1
        if f and f['kind'] in ('crash_write', 'enospc', 'eio_write') and not f.get('fired'):
            k = f['k']
            if self.written + n > k:
                keep = max(0, k - self.written)
                if keep:
                    self._raw_write(mv[:keep])
                f['fired'] = True
                f['fired_at'] = self.written
                f['call_boundary'] = keep == 0
                self.fs.fired.append(f['kind'])
                if f['kind'] == 'crash_write':
                    if self.fs.real_exit:
                        os._exit(137)
                    raise SimCrash(f'crash after {self.written} bytes of {self.path}')
                code = errno.ENOSPC if f['kind'] == 'enospc' else errno.EIO
                raise OSError(code, os.strerror(code), self.path)
        self._raw_write(mv)
        return n

    def _raw_write(self, mv):
        while len(mv):
            w = REAL_OS_WRITE(self.fd, mv)
            mv = mv[w:]
            self.written += w

    # -- read side ----------------------------------------------------
    def _pre_read(self):
        self.nread_calls += 1
        f = self.fs.armed
        if f and not f.get('fired') and f['kind'] in ('eio_read', 'short_read') and self.nread_calls >= f.get('n', 1):
            f['fired'] = True
            self.fs.fired.append(f['kind'])
            if f['kind'] == 'eio_read':
                raise OSError(errno.EIO, os.strerror(errno.EIO), self.path)
            return 'short'
        return None

    def read(self, size=-1) -> bytes:
        how = self._pre_read()
        if size is None or size < 0:
            chunks = []
            while True:
                b = os.read(self.fd, 1 << 20)
                if not b:
                    break
                chunks.append(b)
            data = b''.join(chunks)
        else:
            data = b''
            while len(data) < size:
                b = os.read(self.fd, size - len(data))
                if not b:
                    break
                data += b
        if how == 'short' and len(data) > 0:
            cut = len(data) // 2
            # the rest of the file is "lost": position stays after the full read
            data = data[:cut]
        self.bytes_read += len(data)
        return data

    def readline(self, size=-1) -> bytes:
        how = self._pre_read()
        out = bytearray()
        while size is None or size < 0 or len(out) < size:
            b = os.read(self.fd, 1)
            if not b:
                break
            out += b
            if b == b'\n':
                break
        if how == 'short' and out:
            out = out[: len(out) // 2]
        self.bytes_read += len(out)
        return bytes(out)

    def readinto(self, buf) -> int:
        mv = memoryview(buf).cast('B')
        data = self.read(len(mv))
        mv[: len(data)] = data
        return len(data)

    # the rest of the binary file API (io.BufferedReader / BufferedWriter), so that the stand-in is never the reason for a failure
    def peek(self, size=0) -> bytes:
        n = size if size and size > 0 else 4096
        pos = os.lseek(self.fd, 0, os.SEEK_CUR)
        return os.pread(self.fd, n, pos)

    def read1(self, size=-1) -> bytes:
        return self.read(size if size is not None and size >= 0 else 1 << 16)

    def readinto1(self, buf) -> int:
        return self.readinto(buf)

    def readall(self) -> bytes:
        return self.read(-1)

    def readlines(self, hint=-1):
        out = []
        while True:
            line = self.readline()
            if not line:
                return out
            out.append(line)

    def __iter__(self):
        return self

    def __next__(self):
        line = self.readline()
        if not line:
            raise StopIteration
        return line

    def writelines(self, lines):
        for line in lines:
            self.write(line)

    def isatty(self):
        return False

    @property
    def name(self):
        return self.path

    @property
    def raw(self):
        return self

    # -- misc ---------------------------------------------------------
    def flush(self):
        pass

    def truncate(self, size=None):
        if size is None:
            size = os.lseek(self.fd, 0, os.SEEK_CUR)
        os.ftruncate(self.fd, size)
        return size

    def fileno(self):
        return self.fd

    def tell(self):
        return os.lseek(self.fd, 0, os.SEEK_CUR)

    def seek(self, off, whence=0):
        return os.lseek(self.fd, off, whence)

    def readable(self):
        return 'r' in self.mode or '+' in self.mode

    def writable(self):
        return any(c in self.mode for c in 'wax+')

    def seekable(self):
        return True

    def close(self):
        if not self.closed:
            self.closed = True
            self.fs.raw_fds.pop(self.fd, None)
            REAL_OS_CLOSE(self.fd)
            f = self.fs.armed
            if f and f['kind'] == 'crash_write' and not f.get('fired') and self.writable():
                # every byte reached the file, the process dies before returning
                f['fired'] = True
                f['fired_at'] = self.written
                f['call_boundary'] = True
                self.fs.fired.append('crash_write')
                if self.fs.real_exit:
                    os._exit(137)
                raise SimCrash(f'crash after complete write of {self.path}')

    def __enter__(self):
        return self

    def __exit__(self, *exc):
        self.close()
        return False

    def __del__(self):
        if not self.closed:
            self.closed = True
            try:
                REAL_OS_CLOSE(self.fd)
            except OSError:
                pass


SOURCE_BASENAMES = {'coords.xyz', 'data.txt', 'data2.txt', 'vasprun.xml', 'top.gro', 'top2.gro', 'traj.xtc'}
_DATASET_DIR = __import__('re').compile(r'^d\d+$')


EXTRA_SOURCES: set = set()  # source file names of datasets with their own stems (registered by the engine)
ROOT = None  # run directory; set by SimFS so that paths are judged by where they are, whatever the current directory is


def is_cache(path: str) -> bool:
    """Is this one of the files the code under test keeps next to the simulation sources (i.e. a cache, a temp file
    of a cache, ...)?  Decided by *where* it is, not by its name: any file inside a dataset directory of the run (or
    a harness-chosen save_*.cache) that is neither a source file the harness wrote nor a dot-file (MDAnalysis offsets)."""
    if ROOT is not None:
        ap = os.path.normpath(os.path.join(os.getcwd(), path)) if not os.path.isabs(path) else os.path.normpath(path)
        if ap != ROOT and not ap.startswith(ROOT + os.sep):
            return False
        path = os.path.relpath(ap, ROOT)
    else:
        path = os.path.normpath(path)
        if os.path.isabs(path):
            return False
    parts = path.split(os.sep)
    base = parts[-1]
    if base.startswith('.'):
        return False
    if len(parts) == 1:
        return base.startswith('save_') and '.cache' in base
    if not _DATASET_DIR.match(parts[0]):
        return False
    return base not in SOURCE_BASENAMES and base not in EXTRA_SOURCES


def rootrel(path: str) -> str:
    """Path relative to the run directory (so that records do not depend on the current directory of the moment)."""
    if ROOT is None:
        return os.path.normpath(path)
    ap = os.path.normpath(os.path.join(os.getcwd(), path)) if not os.path.isabs(path) else os.path.normpath(path)
    return os.path.relpath(ap, ROOT) if (ap == ROOT or ap.startswith(ROOT + os.sep)) else ap


class SimFS:
    """Owns the open() seam for one run."""

    def __init__(self, real_exit: bool = False, root: str | None = None):
        global ROOT
        ROOT = os.path.realpath(root) if root else os.path.realpath(os.getcwd())
        self.real_exit = real_exit  # crash_write really kills the process (os._exit) instead of raising SimCrash
        self.armed: dict | None = None  # at most one armed fault at a time
        self.fired: list[str] = []
        self.log: list[tuple[str, str]] = []  # (relative path, mode) of every open during current op
        self.write_calls = 0
        self.installed = False
        self.raw_fds: dict = {}  # fd -> [path, bytes written] for cache files opened for writing with os.open()

    # -- installation -------------------------------------------------
    def install(self):
        builtins.open = self.open
        io.open = self.open
        os.open = self.os_open
        os.write = self.os_write
        os.close = self.os_close
        self.installed = True

    def uninstall(self):
        builtins.open = REAL_OPEN
        io.open = REAL_OPEN
        os.open = REAL_OS_OPEN
        os.write = REAL_OS_WRITE
        os.close = REAL_OS_CLOSE
        self.installed = False

    # -- per-op bookkeeping ------------------------------------------
    def begin_op(self, fault: dict | None = None):
        self.armed = dict(fault) if fault else None
        self.log = []
        self.write_calls = 0
        self.op_write_opens = 0

    def end_op(self):
        f = self.armed
        self.armed = None
        return f

    # -- the seam, system-call level (code that bypasses open(): os.open + os.fdopen / os.write) ------------------
    def os_open(self, path, flags, mode=0o777, *, dir_fd=None):
        fd = REAL_OS_OPEN(path, flags, mode, dir_fd=dir_fd) if dir_fd is not None else REAL_OS_OPEN(path, flags, mode)
        try:
            p = os.fspath(path)
            p = p.decode() if isinstance(p, bytes) else p
            if dir_fd is None and is_cache(p):
                acc = flags & (os.O_WRONLY | os.O_RDWR)
                self.log.append((rootrel(p), 'os.open:' + ('w' if acc else 'r')))
                if acc:
                    self.raw_fds[fd] = [p, 0]
                    self.op_write_opens = getattr(self, 'op_write_opens', 0) + 1
        except TypeError:
            pass
        return fd

    def os_write(self, fd, data):
        ent = self.raw_fds.get(fd)
        if ent is None:
            return REAL_OS_WRITE(fd, data)
        mv = memoryview(data).cast('B')
        n = len(mv)
        f = self.armed
        self.write_calls += 1
        if f and f['kind'] in ('crash_write', 'enospc', 'eio_write') and not f.get('fired') and ent[1] + n > f['k']:
            keep = max(0, f['k'] - ent[1])
            if keep:
                REAL_OS_WRITE(fd, mv[:keep])
                ent[1] += keep
            f['fired'] = True
            f['fired_at'] = ent[1]
            f['call_boundary'] = keep == 0
            self.fired.append(f['kind'])
            if f['kind'] == 'crash_write':
                if self.real_exit:
                    os._exit(137)
                raise SimCrash(f'crash after {ent[1]} bytes of {ent[0]} (os.write)')
            code = errno.ENOSPC if f['kind'] == 'enospc' else errno.EIO
            raise OSError(code, os.strerror(code), ent[0])
        w = REAL_OS_WRITE(fd, mv)
        ent[1] += w
        return w

    def os_close(self, fd):
        self.raw_fds.pop(fd, None)
        return REAL_OS_CLOSE(fd)

    # -- the seam -----------------------------------------------------
    def open(self, file, mode='r', *args, **kwargs):
        if isinstance(file, int):
            ent = self.raw_fds.get(file)
            if ent is not None and 'b' in mode and any(c in mode for c in 'wax+'):
                # os.fdopen() of a cache file descriptor: the stream is simulated like any other cache stream
                sf = SimFile(self, ent[0], mode, file)
                sf.written = ent[1]
                return sf
            return REAL_OPEN(file, mode, *args, **kwargs)
        path = os.fspath(file)
        if isinstance(path, bytes):
            path = path.decode()
        self.log.append((rootrel(path), mode))
        if not is_cache(path) or 'b' not in mode:
            return REAL_OPEN(file, mode, *args, **kwargs)
        f = self.armed
        if 'r' in mode and '+' not in mode:
            if f and not f.get('fired'):
                if f['kind'] == 'eio_open':
                    f['fired'] = True
                    self.fired.append('eio_open')
                    raise OSError(errno.EIO, os.strerror(errno.EIO), path)
                if f['kind'] == 'vanish' and getattr(self, 'op_write_opens', 0) == 0:
                    # (a file that disappears *after* this operation already rewrote it would make "leaves a complete
                    # cache behind" unsatisfiable for any implementation: the fault only models loss before the write)
                    f['fired'] = True
                    self.fired.append('vanish')
                    try:
                        os.unlink(path)
                    except FileNotFoundError:
                        pass
            fd = REAL_OS_OPEN(path, os.O_RDONLY)
            return SimFile(self, path, mode, fd)
        self.op_write_opens = getattr(self, 'op_write_opens', 0) + 1
        flags = os.O_WRONLY | os.O_CREAT
        if 'w' in mode:
            flags |= os.O_TRUNC
        elif 'a' in mode:
            flags |= os.O_APPEND
        elif 'x' in mode:
            flags |= os.O_EXCL
        if '+' in mode:
            flags = (flags & ~os.O_WRONLY) | os.O_RDWR
        fd = REAL_OS_OPEN(path, flags, 0o644)
        return SimFile(self, path, mode, fd)
