"""Core of the deterministic simulator: the one PRNG, the event trace + digest,
canonicalisation of values, violations and counters.

Rules enforced here (DESIGN.md §2.2):
* every random choice of a run comes from ``SimRandom`` seeded by the run seed;
* logging never draws from the PRNG and never reads a clock;
* the digest is computed from canonicalised event records only (no ids, no
  addresses, no absolute paths, no timings, no cache counters).
"""

from __future__ import annotations

import hashlib
import json
import math
import random

import numpy as np

FORMAT = 1


def run_seed_for(prop: str, batch_seed: int, index: int, stream: str = 'seq') -> int:
    """Seed of run ``index`` of a batch: a pure function of (prop, VERIF_SEED, i)."""
    h = hashlib.sha256(f'{prop}:{stream}:{batch_seed}:{index}'.encode()).digest()
    return int.from_bytes(h[:8], 'big')


class SimRandom(random.Random):
    """The PRNG of one run. Thin helpers so engines never touch ``random``/numpy
    global state."""

    def chance(self, p: float) -> bool:
        return self.random() < p

    def pick(self, seq):
        return seq[self.randrange(len(seq))]

    def weighted(self, table: dict):
        keys = list(table)
        tot = float(sum(table[k] for k in keys))
        x = self.random() * tot
        acc = 0.0
        for k in keys:
            acc += table[k]
            if x < acc:
                return k
        return keys[-1]

    def np_rng(self) -> np.random.Generator:
        return np.random.default_rng(self.getrandbits(63))


# ---------------------------------------------------------------------------
# canonicalisation


def _round_sig(x: float, sig: int = 9) -> float:
    if x == 0 or not math.isfinite(x):
        return x
    return float(f'{x:.{sig - 1}e}')


def array_fp(a, decimals: int = 9) -> str:
    """Fingerprint of an array: shape + dtype kind + sha1 of rounded content."""
    a = np.asarray(a)
    if a.dtype.kind in 'fc':
        b = np.round(a.astype(np.float64 if a.dtype.kind == 'f' else np.complex128), decimals)
        b = b + 0.0  # -0.0 -> 0.0
    elif a.dtype.kind in 'iub':
        b = a.astype(np.int64)
    elif a.dtype.kind == 'V':  # structured
        b = np.ascontiguousarray(a)
    else:
        return f'{a.shape}:{a.dtype.kind}:' + hashlib.sha1(repr(a.tolist()).encode()).hexdigest()[:16]
    b = np.ascontiguousarray(b)
    return f'{a.shape}:{a.dtype.kind}:' + hashlib.sha1(b.tobytes()).hexdigest()[:16]


def canon(x, _depth=0):
    """JSON-able canonical form of a value for the trace / digest."""
    if _depth > 6:
        return '<deep>'
    if x is None or isinstance(x, (bool, str)):
        return x
    if isinstance(x, (int, np.integer)):
        return int(x)
    if isinstance(x, (float, np.floating)):
        v = float(x)
        if math.isnan(v):
            return 'nan'
        if math.isinf(v):
            return 'inf' if v > 0 else '-inf'
        return _round_sig(v)
    if isinstance(x, np.ndarray):
        return {'arr': array_fp(x)}
    if isinstance(x, (list, tuple)):
        return [canon(v, _depth + 1) for v in x]
    if isinstance(x, (set, frozenset)):
        return sorted((canon(v, _depth + 1) for v in x), key=lambda v: json.dumps(v, sort_keys=True))
    if isinstance(x, dict):
        return {str(k): canon(v, _depth + 1) for k, v in sorted(x.items(), key=lambda kv: str(kv[0]))}
    if isinstance(x, BaseException):
        return {'exc': type(x).__name__}
    return {'obj': type(x).__name__}


class Violation(Exception):
    """A property violation found by an oracle. ``cls`` is ``<prop>/<invariant>``."""

    def __init__(self, cls: str, detail: str, signature: dict | None = None, step: int | None = None):
        super().__init__(f'{cls}: {detail}')
        self.cls = cls
        self.detail = detail
        self.signature = signature or {}
        self.step = step

    def to_json(self) -> dict:
        return {
            'class': self.cls,
            'detail': self.detail[:2000],
            'signature': self.signature,
            'step': self.step,
        }


class HarnessError(Exception):
    """Something is wrong with the machinery itself (never reported as a violation)."""


class Trace:
    """Event log of one run; hashed incrementally into the digest."""

    def __init__(self, keep: bool = True):
        self._h = hashlib.sha256()
        self.n = 0
        self.keep = keep
        self.events: list = []

    def log(self, **rec):
        rec = canon(rec)
        s = json.dumps(rec, sort_keys=True, separators=(',', ':'))
        self._h.update(s.encode())
        self._h.update(b'\n')
        self.n += 1
        if self.keep:
            self.events.append(rec)

    def digest(self) -> str:
        return self._h.hexdigest()


class Stats:
    """Per-run counters: faults fired, probes, abstract states. Never in the digest."""

    def __init__(self):
        self.faults: dict[str, int] = {}
        self.probes: dict[str, int] = {}
        self.states: set = set()
        self.checks = 0
        self.relaxed: dict[str, int] = {}

    def fault(self, kind: str, n: int = 1):
        self.faults[kind] = self.faults.get(kind, 0) + n

    def probe(self, name: str, n: int = 1):
        self.probes[name] = self.probes.get(name, 0) + n

    def state(self, *tup):
        self.states.add('|'.join(str(t) for t in tup))

    def relax(self, name: str, n: int = 1):
        self.relaxed[name] = self.relaxed.get(name, 0) + n

    def to_json(self) -> dict:
        return {
            'faults': self.faults,
            'probes': self.probes,
            'states': sorted(self.states),
            'checks': self.checks,
            'relaxed': self.relaxed,
        }


def merge_counts(dst: dict, src: dict):
    for k, v in src.items():
        dst[k] = dst.get(k, 0) + v
